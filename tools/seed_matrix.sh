#!/bin/bash
# usage: tools/seed_matrix.sh [own|all] [seed]   - every kept seeded change against its own property's quick check
# (own) or against all 20 quick checks (all). Applies each patch to /repo, runs, reverts. One line per run.
MODE=${1:-own}; SEED=${2:-1}
cd /verif
ALL=$(python3 -c "import json;print(' '.join(c['property_id'] for c in json.load(open('MANIFEST.json'))['checks']))")
for d in seeded/*/; do
  n=$(basename $d)
  own=$(python3 -c "import json;print(json.load(open('$d/meta.json'))['property'])")
  if [ "$MODE" = all ]; then checks="$ALL"; else checks="$own"; fi
  (cd /repo && git diff --quiet) || { echo "repo dirty"; exit 3; }
  (cd /repo && git apply /verif/$d/patch.diff) || { echo "$n: PATCH DOES NOT APPLY"; continue; }
  line="$n:"
  for c in $checks; do
    out=$(VERIF_SEED=$SEED ./check $c quick 2>&1); rc=$?
    nv=$(echo "$out" | grep -c "^VIOLATION")
    case $rc in 0) r=held;; 1) r="CAUGHT($nv)";; *) r="rc$rc";; esac
    line="$line $c=$r"
  done
  (cd /repo && git checkout -- . && git clean -fdq examples 2>/dev/null)
  echo "$line"
done
(cd /repo && git status --short | head -3)
