#!/bin/bash
# usage: tools/seed_check.sh <patch.diff> <ID> [tier] [seed]   - apply to /repo, run the check, revert
set -u
P=$1; ID=$2; TIER=${3:-quick}; export VERIF_SEED=${4:-1}
cd /repo; if ! git diff --quiet; then echo "repo dirty"; exit 3; fi
git apply $P || { echo "patch does not apply to /repo"; exit 3; }
cd /verif && ./check $ID $TIER 2>&1 | grep -E "VIOLATION|result=|INCONCLUSIVE|signature" | head -6
cd /repo && git checkout -- . && git status --short | head -2
