#!/bin/bash
# usage: tools/trymut.sh <ID> <tier> -- <sed-expr> <file-relative-to-repo> [<sed-expr> <file> ...]
# Applies sed edits to /repo, builds, runs the check, reverts. Prints the check's verdict.
set -u
ID=$1; TIER=$2; shift 3
cd /repo
if ! git diff --quiet; then echo "repo dirty, abort"; exit 3; fi
while [ $# -ge 2 ]; do sed -i "$1" "$2"; shift 2; done
if git diff --quiet; then echo "MUTATION DID NOT CHANGE ANYTHING"; exit 3; fi
git diff --stat | tail -1
export GOFLAGS=-mod=mod GOPROXY=off
if ! go build ./... 2>/tmp/mutbuild.log; then echo "mutant does not compile"; head -5 /tmp/mutbuild.log; git checkout -- .; exit 3; fi
cd /verif && ./check $ID $TIER | grep -E "VIOLATION|result=|signature|INCONCLUSIVE" | head -8
cd /repo && git checkout -- . && git status --short | head -3
