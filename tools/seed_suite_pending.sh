#!/bin/bash
cd /verif
for d in $(ls -d seeded/*/ | xargs -n1 basename); do
  if grep -q '"suite_result": "pending"' seeded/$d/meta.json; then
    echo "=== $d"
    tools/seed_verify.sh /verif/seeded/$d suitewt fullsuite 2>&1 | grep -E "suite with|CONFIRMED|NOT|PATCH|build:"
  fi
done
echo finished
