#!/bin/bash
# usage: tools/runall.sh [quick|thorough] [seed]  - runs every registered check, prints one line each
TIER=${1:-quick}; export VERIF_SEED=${2:-1}
cd /verif
for p in $(python3 -c "import json;print(' '.join(c['property_id'] for c in json.load(open('MANIFEST.json'))['checks']))"); do
  out=$(./check $p $TIER 2>&1); rc=$?
  echo "$p rc=$rc $(echo "$out" | grep -E '^property=' | tail -1)"
  if [ $rc -ne 0 ]; then echo "$out" | grep -E "VIOLATION|INCONCLUSIVE|signature" | head -5; fi
  echo "$out" | grep -E "^KNOWN-FINDING" | cut -c1-120
done
