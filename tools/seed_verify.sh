#!/bin/bash
# usage: tools/seed_verify.sh <seed-dir (contains patch.diff, demo_test.go)> <scratch-worktree-name> [fullsuite]
# Confirms independently: builds with the change, demonstration fails with / passes without the change,
# (optionally) the library's test suite passes with the change. Prints a summary; exit 0 if all confirmed.
set -u
SRC=$1; WT=/tmp/$2; FULL=${3:-}
export GOFLAGS=-mod=mod GOPROXY=off
git -C /repo worktree remove --force $WT >/dev/null 2>&1
git -C /repo worktree add -q $WT HEAD || exit 3
cd $WT
ok=1
if ! git apply $SRC/patch.diff 2>/tmp/apply.$$; then echo "PATCH DOES NOT APPLY: $(head -3 /tmp/apply.$$)"; ok=0; fi
if [ $ok = 1 ]; then
  if go build ./... 2>/tmp/build.$$; then echo "build: ok"; else echo "build: FAILED"; head -5 /tmp/build.$$; ok=0; fi
fi
if [ $ok = 1 ]; then
  mkdir -p verifdemo && cp $SRC/demo_test.go verifdemo/
  if go test -vet=off -count=1 ./verifdemo/ >/tmp/demo1.$$ 2>&1; then echo "demo with change: PASSES (expected to fail)"; ok=0; else echo "demo with change: fails (as required): $(grep -m2 -E '^\s+--- FAIL|Error:|demo_test.go' /tmp/demo1.$$ | tr '\n' ' ' | cut -c1-200)"; fi
  git apply -R $SRC/patch.diff
  if go test -vet=off -count=1 ./verifdemo/ >/tmp/demo2.$$ 2>&1; then echo "demo without change: passes (as required)"; else echo "demo without change: FAILS"; tail -5 /tmp/demo2.$$; ok=0; fi
  git apply $SRC/patch.diff
  if [ -n "$FULL" ]; then
    rm -rf verifdemo
    go test -vet=off -count=1 -json -timeout 25m ./... > /tmp/suite.$$.json 2>/dev/null
    python3 - /tmp/suite.$$.json <<'PY'
import json,sys
base=json.load(open('/root/.vp/BASELINE.json')); stable=set(base['stable_pass']); res={}
for ln in open(sys.argv[1]):
    try: e=json.loads(ln)
    except: continue
    if e.get('Test') and e.get('Action') in ('pass','fail','skip'): res[e['Package']+'::'+e['Test']]=e['Action']
bad=[t for t in stable if res.get(t)!='pass']
print("suite with change: %d/%d baseline tests pass%s" % (len(stable)-len(bad), len(stable), "" if not bad else " NOT PASSING: "+", ".join(bad[:5])))
sys.exit(1 if bad else 0)
PY
    [ $? -ne 0 ] && ok=0
  fi
fi
cd /; git -C /repo worktree remove --force $WT >/dev/null 2>&1
rm -f /tmp/*.$$ /tmp/suite.$$.json
[ $ok = 1 ] && echo "CONFIRMED" || echo "NOT CONFIRMED"
[ $ok = 1 ]
