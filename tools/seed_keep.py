#!/usr/bin/env python3
"""usage: tools/seed_keep.py <src-dir> <seeded-name> <property> <caught_by (comma list or 'none')> <notes>
Copies patch.diff, demo_test.go and a merged meta.json into /verif/seeded/<seeded-name>/."""
import json, os, shutil, sys
src, name, prop, caught, notes = sys.argv[1:6]
dst = os.path.join('/verif/seeded', name)
os.makedirs(dst, exist_ok=True)
shutil.copy(os.path.join(src, 'patch.diff'), dst)
shutil.copy(os.path.join(src, 'demo_test.go'), dst)
meta = {}
try:
    meta = json.load(open(os.path.join(src, 'meta.json')))
except Exception as e:
    meta = {"note": "author's meta.json unreadable: %s" % e}
out = {
    "property": prop,
    "breaks": meta.get("summary", ""),
    "needs_to_manifest": meta.get("needs", ""),
    "files": meta.get("files", []),
    "author": "independent sub-agent given only the property text and a scratch worktree",
    "author_ran": meta.get("ran", ""),
    "confirmed_by_me": [
        "tools/seed_verify.sh: patch applies to /repo HEAD in a scratch worktree, `go build ./...` ok, demonstration fails with the change and passes without it",
        "library test suite with the change: see suite_result",
    ],
    "suite_result": "pending",
    "checks_run": "tools/seed_check.sh <patch> <ID> quick 1 (patch applied to /repo, check run, patch reverted)",
    "caught_by": [c for c in caught.split(',') if c and c != 'none'],
    "notes": notes,
}
json.dump(out, open(os.path.join(dst, 'meta.json'), 'w'), indent=1)
print("kept", dst)
