// loaderchild runs the four loaders of grule-rule-engine on a batch of inputs under an address
// space limit and reports, per input, whether the loader returned, panicked, how much it
// allocated and how long it took. The parent (props/c20_test.go) knows which input was being
// processed when this process dies.
//
// usage: loaderchild <batch-file> <first-index> <rlimit-as-bytes>
// batch file: repeated records  target(1 byte) length(4 bytes LE) bytes
// output: one line per input  "R <index> <status> <totalAllocDelta> <nanoseconds> <detail>"
package main

import (
	"bufio"
	"bytes"
	"encoding/binary"
	"fmt"
	"io"
	"os"
	"runtime"
	"strconv"
	"strings"
	"syscall"
	"time"

	"github.com/hyperjumptech/grule-rule-engine/ast"
	"github.com/hyperjumptech/grule-rule-engine/builder"
	"github.com/hyperjumptech/grule-rule-engine/pkg"
)

const (
	TargetGRL      = 0
	TargetJSONRule = 1
	TargetJSONFact = 2
	TargetGRB      = 3
	// TargetJSONTranslate runs only the JSON -> GRL translation (JSONResource.Load), without building
	TargetJSONTranslate = 4
	// TargetGRBThenGRL loads a binary stream and, when that succeeds, hands the knowledge base on to the
	// GRL loader (an ordinary rule is built into it) and to NewKnowledgeBaseInstance; only used with
	// valid streams
	TargetGRBThenGRL = 5
)

const handOverRule = `rule ZZHandOver "built after the load" salience 3 { when F.I64 > 1 && F.S == "x" then F.I64 = F.I64 + 1; Retract("ZZHandOver"); }`

func run(target byte, data []byte) (status, detail string) {
	defer func() {
		if r := recover(); r != nil {
			status = "panic"
			detail = strings.ReplaceAll(fmt.Sprint(r), "\n", " ")
			if len(detail) > 200 {
				detail = detail[:200]
			}
		}
	}()
	switch target {
	case TargetGRL:
		lib := ast.NewKnowledgeLibrary()
		err := builder.NewRuleBuilder(lib).BuildRuleFromResource("c", "1", pkg.NewBytesResource(data))
		if err != nil {
			return "error", "build"
		}
		return "ok", ""
	case TargetJSONRule:
		res, err := pkg.NewJSONResourceFromResource(pkg.NewBytesResource(data))
		if err != nil {
			return "error", "resource"
		}
		lib := ast.NewKnowledgeLibrary()
		err = builder.NewRuleBuilder(lib).BuildRuleFromResource("c", "1", res)
		if err != nil {
			return "error", "json-or-build"
		}
		return "ok", ""
	case TargetJSONTranslate:
		res, err := pkg.NewJSONResourceFromResource(pkg.NewBytesResource(data))
		if err != nil {
			return "error", "resource"
		}
		if _, err := res.Load(); err != nil {
			return "error", "json"
		}
		return "ok", ""
	case TargetJSONFact:
		dc := ast.NewDataContext()
		if err := dc.AddJSON("J", data); err != nil {
			return "error", "json"
		}
		return "ok", ""
	case TargetGRBThenGRL:
		lib := ast.NewKnowledgeLibrary()
		kb, err := lib.LoadKnowledgeBaseFromReader(bytes.NewReader(data), true)
		if err != nil {
			return "error", "load"
		}
		if err := builder.NewRuleBuilder(lib).BuildRuleFromResource(kb.Name, kb.Version, pkg.NewBytesResource([]byte(handOverRule))); err != nil {
			return "error", "build-after-load"
		}
		if _, err := lib.NewKnowledgeBaseInstance(kb.Name, kb.Version); err != nil {
			return "error", "instance-after-load"
		}
		return "ok", ""
	case TargetGRB:
		lib := ast.NewKnowledgeLibrary()
		_, err := lib.LoadKnowledgeBaseFromReader(bytes.NewReader(data), true)
		if err != nil {
			d := "load"
			if strings.Contains(err.Error(), "panic recovered") {
				d = "load-recovered-panic"
			}
			return "error", d
		}
		return "ok", ""
	}
	return "error", "unknown target"
}

func main() {
	if len(os.Args) < 4 {
		fmt.Fprintln(os.Stderr, "usage: loaderchild <batch-file> <first-index> <rlimit-as-bytes>")
		os.Exit(2)
	}
	first, _ := strconv.Atoi(os.Args[2])
	lim, _ := strconv.ParseUint(os.Args[3], 10, 64)
	if lim > 0 {
		_ = syscall.Setrlimit(syscall.RLIMIT_AS, &syscall.Rlimit{Cur: lim, Max: lim})
	}
	f, err := os.Open(os.Args[1])
	if err != nil {
		fmt.Fprintln(os.Stderr, err)
		os.Exit(2)
	}
	defer f.Close()
	rd := bufio.NewReader(f)
	out := bufio.NewWriter(os.Stdout)
	idx := 0
	for {
		hdr := make([]byte, 5)
		if _, err := io.ReadFull(rd, hdr); err != nil {
			break
		}
		n := binary.LittleEndian.Uint32(hdr[1:])
		data := make([]byte, n)
		if _, err := io.ReadFull(rd, data); err != nil {
			break
		}
		if idx < first {
			idx++
			continue
		}
		fmt.Fprintf(out, "B %d\n", idx)
		out.Flush()
		runtime.GC()
		var m0, m1 runtime.MemStats
		runtime.ReadMemStats(&m0)
		t0 := time.Now()
		status, detail := run(hdr[0], data)
		dt := time.Since(t0)
		runtime.ReadMemStats(&m1)
		fmt.Fprintf(out, "R %d %s %d %d %s\n", idx, status, m1.TotalAlloc-m0.TotalAlloc, dt.Nanoseconds(), detail)
		out.Flush()
		idx++
	}
	fmt.Fprintln(out, "DONE")
	out.Flush()
}
