#!/usr/bin/env python3
"""Regenerates MANIFEST.json from the table below (kept in one place so it is always valid)."""
import json, os, sys
VERIF = os.path.dirname(os.path.abspath(__file__))

CHECKS = {}  # filled below: id -> dict(level, text, note, technique, design_ref)

def add(pid, level, text, note, technique, design_ref):
    CHECKS[pid] = dict(level=level, text=text, note=note, technique=technique, design_ref=design_ref)

exec(open(os.path.join(VERIF, "manifest_table.py")).read())

ALL = ["C%02d" % i for i in range(1, 21)]
NOT_YET = {p: "check not built yet in this session (planned, see DESIGN.md section 3)" for p in ALL if p not in CHECKS}

m = {
 "version": 1,
 "setup_cmd": "./check --setup",
 "hooks": {
  "guard": "verif",
  "enable": "-tags verif (no hook commit exists: every observation point is reachable through the public API, listeners and reflection)",
  "baseline_off_cmd": "cd /repo && GOFLAGS=-mod=mod GOPROXY=off go test -vet=off -count=1 ./...",
  "source_commits": [],
  "add_only": True
 },
 "engines": [
  {"name": "rapid-props", "path": "props", "serves_properties": sorted(CHECKS), "kind_free_text": "pgregory.net/rapid v1.3.0 property tests and state machines over generated GRL rule sets, facts and operation histories; reference interpreter and trace validator in internal/"},
 ],
 "checks": [],
 "notes": "Driver: ./check <ID> [quick|thorough]; exit 0 held / 1 violation / 2 inconclusive. Known findings: KNOWN_FINDINGS.txt.",
 "not_applicable": [{"property_id": p, "reason": r} for p, r in sorted(NOT_YET.items())],
}
for pid in sorted(CHECKS):
    c = CHECKS[pid]
    m["checks"].append({
        "property_id": pid,
        "quick_cmd": "./check %s quick" % pid,
        "thorough_cmd": "./check %s thorough" % pid,
        "evidence_file": "/verif/evidence/%s.json" % pid,
        "replay_cmd_template": "./check --replay {path}",
        "engine": "rapid-props",
        "level_claimed": {"category": c["level"], "text": c["text"], "design_ref": c["design_ref"]},
        "level_note": c["note"],
        "technique": c["technique"],
    })
json.dump(m, open(os.path.join(VERIF, "MANIFEST.json"), "w"), indent=1)
print("MANIFEST.json written with %d checks, %d not_applicable" % (len(m["checks"]), len(m["not_applicable"])))
