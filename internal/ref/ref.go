// Package ref is the reference interpreter: a direct, non-memoizing evaluator of gast
// expressions and actions over a facts.State, written against the documented semantics of
// GRL (docs/en/GRL_en.md, GRL_Literals_en.md, Function_en.md). It imports nothing from grule.
package ref

import (
	"fmt"
	"math"
	"reflect"
	"regexp"
	"strconv"
	"strings"
	"time"

	"verif/internal/facts"
	"verif/internal/gast"
)

// Kind of a reference value.
type Kind int

const (
	KNil Kind = iota
	KInt
	KFloat
	KStr
	KBool
	KTime
	KGo   // Go container or object held in R
	KJSON // JSON container held in J
)

func (k Kind) String() string {
	return [...]string{"nil", "int", "float", "string", "bool", "time", "go", "json"}[k]
}

// Seg is a piece of a string that was built by concatenation: literal text or a float whose
// decimal rendering is not documented (any rendering that parses back is accepted).
type Seg struct {
	Lit string
	IsF bool
	F   float64
}

// Val is a reference value.
type Val struct {
	K    Kind
	I    int64
	F    float64
	S    string
	B    bool
	T    time.Time
	R    reflect.Value
	J    interface{}
	GK   reflect.Kind // dynamic Go kind of numeric values (Int8.., Uint8.., Float32/64)
	Segs []Seg        // non-nil only for strings that embed float renderings
}

// ErrClass classifies evaluation failures.
type ErrClass int

const (
	ENone ErrClass = iota
	ENilPtr
	EIndex
	EKey
	EField
	EKind
	EModZero
	EUnknown
	EMissingFact
	EMethod    // failing user method (panic, two results, nil result dereferenced)
	EUndefined // outside the property's quantifier: overflow, division by zero, NaN/Inf, out-of-range store
)

// Err is an evaluation error.
type Err struct {
	Class ErrClass
	Msg   string
}

func (e *Err) Error() string { return fmt.Sprintf("ref error class %d: %s", e.Class, e.Msg) }

func errf(c ErrClass, f string, a ...interface{}) *Err {
	return &Err{Class: c, Msg: fmt.Sprintf(f, a...)}
}

// IsUndefined reports whether err marks a case outside the quantifier.
func IsUndefined(err error) bool {
	e, ok := err.(*Err)
	return ok && e.Class == EUndefined
}

// Effects are the control effects of executed actions.
type Effects struct {
	Retracted []string
	Complete  bool
	Forgot    []string
	Logged    []string
}

// Env evaluates over one state.
type Env struct {
	St  *facts.State
	Eff *Effects
}

// StrictKinds makes a method argument of the wrong dynamic kind an ordinary evaluation error
// (class EKind) instead of "outside the quantifier"; C14 injects such failures on purpose.
var StrictKinds = false

// New makes an evaluator over st.
func New(st *facts.State) *Env { return &Env{St: st, Eff: &Effects{}} }

func vInt(i int64, k reflect.Kind) Val     { return Val{K: KInt, I: i, GK: k} }
func vFloat(f float64, k reflect.Kind) Val { return Val{K: KFloat, F: f, GK: k} }
func vStr(s string) Val                    { return Val{K: KStr, S: s} }
func vBool(b bool) Val                     { return Val{K: KBool, B: b} }
func vTime(t time.Time) Val                { return Val{K: KTime, T: t} }

var timeType = reflect.TypeOf(time.Time{})

// fromReflect converts a Go value found in a fact into a reference value.
func fromReflect(rv reflect.Value) (Val, *Err) {
	if !rv.IsValid() {
		return Val{K: KNil}, nil
	}
	switch rv.Kind() {
	case reflect.Int, reflect.Int8, reflect.Int16, reflect.Int32, reflect.Int64:
		return vInt(rv.Int(), rv.Kind()), nil
	case reflect.Uint, reflect.Uint8, reflect.Uint16, reflect.Uint32, reflect.Uint64:
		u := rv.Uint()
		if u > math.MaxInt64 {
			return Val{}, errf(EUndefined, "unsigned value beyond the int64 range")
		}
		return vInt(int64(u), rv.Kind()), nil
	case reflect.Float32, reflect.Float64:
		return vFloat(rv.Float(), rv.Kind()), nil
	case reflect.String:
		return vStr(rv.String()), nil
	case reflect.Bool:
		return vBool(rv.Bool()), nil
	case reflect.Struct:
		if rv.Type() == timeType {
			return vTime(rv.Interface().(time.Time)), nil
		}
		return Val{K: KGo, R: rv}, nil
	case reflect.Interface:
		if rv.IsNil() {
			return Val{K: KNil}, nil
		}
		return fromReflect(rv.Elem())
	case reflect.Ptr, reflect.Slice, reflect.Map:
		return Val{K: KGo, R: rv}, nil
	}
	return Val{}, errf(EKind, "unsupported Go kind %s", rv.Kind())
}

func fromDynamic(v interface{}) (Val, *Err) {
	switch x := v.(type) {
	case nil:
		return Val{K: KNil}, nil
	case map[string]interface{}, []interface{}:
		return Val{K: KJSON, J: x}, nil
	case time.Time:
		return vTime(x), nil
	case string:
		return vStr(x), nil
	case bool:
		return vBool(x), nil
	}
	return fromReflect(reflect.ValueOf(v))
}

// Dynamic converts a scalar reference value to the Go value stored in JSON documents and
// top-level variables.
func (v Val) Dynamic() interface{} {
	switch v.K {
	case KInt:
		switch v.GK {
		case reflect.Uint, reflect.Uint8, reflect.Uint16, reflect.Uint32, reflect.Uint64:
			return uint64(v.I)
		}
		return v.I
	case KFloat:
		return v.F
	case KStr:
		return v.S
	case KBool:
		return v.B
	case KTime:
		return v.T
	case KJSON:
		return v.J
	case KGo:
		return v.R.Interface()
	}
	return nil
}

// ---------------------------------------------------------------------------------------------
// expressions

// Eval evaluates an expression.
func (e *Env) Eval(x gast.Expr) (Val, error) {
	v, err := e.eval(x)
	if err != nil {
		return Val{}, err
	}
	return v, nil
}

func (e *Env) eval(x gast.Expr) (Val, *Err) {
	switch n := x.(type) {
	case *gast.Lit:
		if n.Nil {
			return Val{K: KNil}, nil
		}
		switch n.T {
		case gast.TInt:
			return vInt(n.I, reflect.Int64), nil
		case gast.TFloat:
			return vFloat(n.F, reflect.Float64), nil
		case gast.TStr:
			return vStr(n.S), nil
		case gast.TBool:
			return vBool(n.B), nil
		}
		return Val{}, errf(EKind, "bad literal")
	case *gast.Paren:
		return e.eval(n.X)
	case *gast.Frozen:
		return e.eval(n.X)
	case *gast.Not:
		v, err := e.eval(n.X)
		if err != nil {
			return Val{}, err
		}
		if v.K != KBool {
			return Val{}, errf(EKind, "negation of %s", v.K)
		}
		return vBool(!v.B), nil
	case *gast.Path:
		return e.evalPath(n)
	case *gast.Member:
		r, err := e.eval(n.X)
		if err != nil {
			return Val{}, err
		}
		return e.field(r, n.Field)
	case *gast.Index:
		r, err := e.eval(n.X)
		if err != nil {
			return Val{}, err
		}
		i, err := e.eval(n.Idx)
		if err != nil {
			return Val{}, err
		}
		return e.index(r, i)
	case *gast.Call:
		return e.call(n)
	case *gast.Bin:
		return e.bin(n)
	}
	return Val{}, errf(EKind, "unknown node %T", x)
}

func (e *Env) root(name string) (Val, *Err) {
	if f, ok := e.St.Go[name]; ok {
		if f == nil {
			return Val{K: KNil}, nil
		}
		return Val{K: KGo, R: reflect.ValueOf(f)}, nil
	}
	if j, ok := e.St.JSON[name]; ok {
		return fromDynamic(j)
	}
	if t, ok := e.St.Top[name]; ok {
		return fromDynamic(t)
	}
	return Val{}, errf(EMissingFact, "no fact named %s", name)
}

func (e *Env) evalPath(p *gast.Path) (Val, *Err) {
	v, err := e.root(p.Root)
	if err != nil {
		return Val{}, err
	}
	for _, s := range p.Steps {
		if s.Index != nil {
			i, err := e.eval(s.Index)
			if err != nil {
				return Val{}, err
			}
			v, err = e.index(v, i)
			if err != nil {
				return Val{}, err
			}
		} else {
			v, err = e.field(v, s.Field)
			if err != nil {
				return Val{}, err
			}
		}
	}
	return v, nil
}

func structOf(v Val) (reflect.Value, *Err) {
	if v.K == KNil {
		return reflect.Value{}, errf(ENilPtr, "field of nil")
	}
	if v.K != KGo {
		return reflect.Value{}, errf(EKind, "field access on %s", v.K)
	}
	rv := v.R
	for rv.Kind() == reflect.Ptr || rv.Kind() == reflect.Interface {
		if rv.IsNil() {
			return reflect.Value{}, errf(ENilPtr, "nil pointer")
		}
		rv = rv.Elem()
	}
	if rv.Kind() != reflect.Struct {
		return reflect.Value{}, errf(EKind, "field access on %s", rv.Kind())
	}
	return rv, nil
}

func (e *Env) field(v Val, name string) (Val, *Err) {
	if v.K == KJSON {
		m, ok := v.J.(map[string]interface{})
		if !ok {
			return Val{}, errf(EKind, "member of JSON non-object")
		}
		x, ok := m[name]
		if !ok {
			return Val{}, errf(EKey, "JSON member %s undefined", name)
		}
		return fromDynamic(x)
	}
	rv, err := structOf(v)
	if err != nil {
		return Val{}, err
	}
	f := rv.FieldByName(name)
	if !f.IsValid() {
		return Val{}, errf(EField, "no field %s", name)
	}
	if f.Kind() == reflect.Ptr && f.Type().Elem().Kind() != reflect.Struct {
		// pointer to number: arithmetic looks through it
		if f.IsNil() {
			return Val{K: KNil}, nil
		}
		return fromReflect(f.Elem())
	}
	return fromReflect(f)
}

func (e *Env) index(v Val, idx Val) (Val, *Err) {
	switch v.K {
	case KJSON:
		switch c := v.J.(type) {
		case []interface{}:
			if idx.K != KInt {
				return Val{}, errf(EKind, "array index is %s", idx.K)
			}
			if idx.I < 0 || idx.I >= int64(len(c)) {
				return Val{}, errf(EIndex, "index %d out of range", idx.I)
			}
			return fromDynamic(c[idx.I])
		case map[string]interface{}:
			if idx.K != KStr {
				return Val{}, errf(EKind, "JSON selector must be a string")
			}
			x, ok := c[idx.S]
			if !ok {
				return Val{}, errf(EKey, "no key %q", idx.S)
			}
			return fromDynamic(x)
		}
		return Val{}, errf(EKind, "not an array nor map")
	case KGo:
		rv := v.R
		switch rv.Kind() {
		case reflect.Slice, reflect.Array:
			if idx.K != KInt {
				return Val{}, errf(EKind, "array index is %s", idx.K)
			}
			if idx.I < 0 || idx.I >= int64(rv.Len()) {
				return Val{}, errf(EIndex, "index %d out of range", idx.I)
			}
			return fromReflect(rv.Index(int(idx.I)))
		case reflect.Map:
			k, err := mapKey(rv, idx)
			if err != nil {
				return Val{}, err
			}
			x := rv.MapIndex(k)
			if !x.IsValid() {
				return Val{}, errf(EKey, "no such key")
			}
			return fromReflect(x)
		}
	case KNil:
		return Val{}, errf(ENilPtr, "selector on nil")
	}
	return Val{}, errf(EKind, "not an array nor map")
}

func mapKey(m reflect.Value, idx Val) (reflect.Value, *Err) {
	kt := m.Type().Key()
	switch kt.Kind() {
	case reflect.String:
		if idx.K != KStr {
			return reflect.Value{}, errf(EKind, "map key kind")
		}
		return reflect.ValueOf(idx.S), nil
	case reflect.Int64:
		if idx.K != KInt || idx.GK != reflect.Int64 {
			return reflect.Value{}, errf(EKind, "map key kind")
		}
		return reflect.ValueOf(idx.I), nil
	}
	return reflect.Value{}, errf(EKind, "unsupported key type")
}

// ---------------------------------------------------------------------------------------------
// operators

func isNum(v Val) bool { return v.K == KInt || v.K == KFloat }

func isUnsigned(k reflect.Kind) bool {
	switch k {
	case reflect.Uint, reflect.Uint8, reflect.Uint16, reflect.Uint32, reflect.Uint64:
		return true
	}
	return false
}

func asFloat(v Val) float64 {
	if v.K == KInt {
		return float64(v.I)
	}
	return v.F
}

func intResultKind(l, r Val) reflect.Kind {
	if isUnsigned(l.GK) && isUnsigned(r.GK) {
		return reflect.Uint64
	}
	return reflect.Int64
}

func checkF(f float64) (Val, *Err) {
	if math.IsNaN(f) || math.IsInf(f, 0) {
		return Val{}, errf(EUndefined, "non-finite float result")
	}
	return vFloat(f, reflect.Float64), nil
}

func (e *Env) bin(n *gast.Bin) (Val, *Err) {
	if n.Op == gast.OpAnd || n.Op == gast.OpOr {
		l, err := e.eval(n.L)
		if err != nil {
			return Val{}, err
		}
		if l.K != KBool {
			return Val{}, errf(EKind, "logical operand is %s", l.K)
		}
		if n.Op == gast.OpAnd && !l.B {
			return vBool(false), nil
		}
		if n.Op == gast.OpOr && l.B {
			return vBool(true), nil
		}
		r, err := e.eval(n.R)
		if err != nil {
			return Val{}, err
		}
		if r.K != KBool {
			return Val{}, errf(EKind, "logical operand is %s", r.K)
		}
		return vBool(r.B), nil
	}
	l, err := e.eval(n.L)
	if err != nil {
		return Val{}, err
	}
	r, err := e.eval(n.R)
	if err != nil {
		return Val{}, err
	}
	return BinOp(n.Op, l, r)
}

// BinOp applies a non-logical binary operator to two values.
func BinOp(op gast.Op, l, r Val) (Val, *Err) {
	switch op {
	case gast.OpAdd:
		if l.K == KStr || r.K == KStr {
			return concat(l, r)
		}
		fallthrough
	case gast.OpSub, gast.OpMul:
		if !isNum(l) || !isNum(r) {
			return Val{}, errf(EKind, "arithmetic on %s and %s", l.K, r.K)
		}
		if l.K == KInt && r.K == KInt {
			var res int64
			var ok bool
			switch op {
			case gast.OpAdd:
				res, ok = addOv(l.I, r.I)
			case gast.OpSub:
				res, ok = subOv(l.I, r.I)
			default:
				res, ok = mulOv(l.I, r.I)
			}
			k := intResultKind(l, r)
			if !ok || (k == reflect.Uint64 && res < 0) {
				return Val{}, errf(EUndefined, "integer overflow")
			}
			return vInt(res, k), nil
		}
		a, b := asFloat(l), asFloat(r)
		switch op {
		case gast.OpAdd:
			return checkF(a + b)
		case gast.OpSub:
			return checkF(a - b)
		default:
			return checkF(a * b)
		}
	case gast.OpDiv:
		if !isNum(l) || !isNum(r) {
			return Val{}, errf(EKind, "division on %s and %s", l.K, r.K)
		}
		b := asFloat(r)
		if b == 0 {
			return Val{}, errf(EUndefined, "division by zero")
		}
		return checkF(asFloat(l) / b)
	case gast.OpMod:
		if l.K != KInt || r.K != KInt {
			return Val{}, errf(EKind, "modulo on %s and %s", l.K, r.K)
		}
		if r.I == 0 {
			return Val{}, errf(EModZero, "integer modulo by zero")
		}
		if l.I == math.MinInt64 && r.I == -1 {
			return Val{}, errf(EUndefined, "modulo overflow")
		}
		return vInt(l.I%r.I, reflect.Int64), nil
	case gast.OpBAnd, gast.OpBOr:
		if l.K != KInt || r.K != KInt {
			return Val{}, errf(EKind, "bitwise on %s and %s", l.K, r.K)
		}
		k := intResultKind(l, r)
		if op == gast.OpBAnd {
			return vInt(l.I&r.I, k), nil
		}
		return vInt(l.I|r.I, k), nil
	case gast.OpEq, gast.OpNEq, gast.OpLT, gast.OpGT, gast.OpLTE, gast.OpGTE:
		return compare(op, l, r)
	}
	return Val{}, errf(EKind, "unknown operator %s", op)
}

func addOv(a, b int64) (int64, bool) {
	c := a + b
	if (c > a) == (b > 0) {
		return c, true
	}
	return c, false
}

func subOv(a, b int64) (int64, bool) {
	c := a - b
	if (c < a) == (b > 0) {
		return c, true
	}
	return c, false
}

func mulOv(a, b int64) (int64, bool) {
	if a == 0 || b == 0 {
		return 0, true
	}
	c := a * b
	if (c < 0) == ((a < 0) != (b < 0)) && c/b == a {
		return c, true
	}
	return c, false
}

func concat(l, r Val) (Val, *Err) {
	if l.K == KBool || l.K == KTime {
		// the engine (and its examples) define boolean and time operands of a concatenation only on
		// the right of a string; the other order is outside the generated domain
		return Val{}, errf(EUndefined, "%s on the left of a concatenation", l.K)
	}
	ls, lerr := toSegs(l)
	if lerr != nil {
		return Val{}, lerr
	}
	rs, rerr := toSegs(r)
	if rerr != nil {
		return Val{}, rerr
	}
	segs := append(append([]Seg{}, ls...), rs...)
	out := Val{K: KStr}
	hasF := false
	var b strings.Builder
	for _, s := range segs {
		if s.IsF {
			hasF = true
			b.WriteString(strconv.FormatFloat(s.F, 'f', -1, 64))
		} else {
			b.WriteString(s.Lit)
		}
	}
	out.S = b.String()
	if hasF {
		out.Segs = segs
	}
	return out, nil
}

func toSegs(v Val) ([]Seg, *Err) {
	switch v.K {
	case KStr:
		if v.Segs != nil {
			return v.Segs, nil
		}
		return []Seg{{Lit: v.S}}, nil
	case KInt:
		return []Seg{{Lit: strconv.FormatInt(v.I, 10)}}, nil
	case KFloat:
		return []Seg{{IsF: true, F: v.F}}, nil
	case KBool:
		return []Seg{{Lit: strconv.FormatBool(v.B)}}, nil
	case KTime:
		return []Seg{{Lit: v.T.Format(time.RFC3339)}}, nil
	}
	return nil, errf(EKind, "cannot concatenate %s", v.K)
}

func plainStr(v Val) (string, *Err) {
	if v.K != KStr {
		return "", errf(EKind, "string expected, got %s", v.K)
	}
	if v.Segs != nil {
		return "", errf(EUndefined, "string with undocumented float rendering consumed")
	}
	return v.S, nil
}

func compare(op gast.Op, l, r Val) (Val, *Err) {
	var c int // -1,0,1
	switch {
	case isNum(l) && isNum(r):
		if l.K == KInt && r.K == KInt {
			switch {
			case l.I < r.I:
				c = -1
			case l.I > r.I:
				c = 1
			}
		} else {
			a, b := asFloat(l), asFloat(r)
			if math.IsNaN(a) || math.IsNaN(b) {
				return Val{}, errf(EUndefined, "NaN comparison")
			}
			switch {
			case a < b:
				c = -1
			case a > b:
				c = 1
			}
		}
	case l.K == KStr && r.K == KStr:
		a, err := plainStr(l)
		if err != nil {
			return Val{}, err
		}
		b, err := plainStr(r)
		if err != nil {
			return Val{}, err
		}
		c = strings.Compare(a, b)
	case l.K == KTime && r.K == KTime:
		switch {
		case l.T.Before(r.T):
			c = -1
		case l.T.After(r.T):
			c = 1
		}
	case l.K == KBool && r.K == KBool:
		if op != gast.OpEq && op != gast.OpNEq {
			return Val{}, errf(EKind, "ordering of booleans")
		}
		if l.B != r.B {
			c = 1
		}
	default:
		return Val{}, errf(EKind, "comparison of %s with %s", l.K, r.K)
	}
	switch op {
	case gast.OpEq:
		return vBool(c == 0), nil
	case gast.OpNEq:
		return vBool(c != 0), nil
	case gast.OpLT:
		return vBool(c < 0), nil
	case gast.OpGT:
		return vBool(c > 0), nil
	case gast.OpLTE:
		return vBool(c <= 0), nil
	default:
		return vBool(c >= 0), nil
	}
}

// ---------------------------------------------------------------------------------------------
// calls

func (e *Env) args(xs []gast.Expr) ([]Val, *Err) {
	out := make([]Val, len(xs))
	for i, a := range xs {
		v, err := e.eval(a)
		if err != nil {
			return nil, err
		}
		out[i] = v
	}
	return out, nil
}

func needInt64(v Val) (int64, *Err) {
	if v.K != KInt || v.GK != reflect.Int64 {
		if StrictKinds {
			return 0, errf(EKind, "argument is not exactly int64 (%s/%s)", v.K, v.GK)
		}
		return 0, errf(EUndefined, "argument is not exactly int64 (%s/%s)", v.K, v.GK)
	}
	return v.I, nil
}

func needFloat64(v Val) (float64, *Err) {
	if v.K != KFloat || v.GK != reflect.Float64 {
		if StrictKinds {
			return 0, errf(EKind, "argument is not exactly float64 (%s/%s)", v.K, v.GK)
		}
		return 0, errf(EUndefined, "argument is not exactly float64 (%s/%s)", v.K, v.GK)
	}
	return v.F, nil
}

func needBool(v Val) (bool, *Err) {
	if v.K != KBool {
		return false, errf(EKind, "bool expected")
	}
	return v.B, nil
}

func needTime(v Val) (time.Time, *Err) {
	if v.K != KTime {
		return time.Time{}, errf(EKind, "time expected")
	}
	return v.T, nil
}

func (e *Env) call(c *gast.Call) (Val, *Err) {
	if c.Recv == nil {
		args, err := e.args(c.Args)
		if err != nil {
			return Val{}, err
		}
		return e.builtin(c.Name, args)
	}
	recv, err := e.eval(c.Recv)
	if err != nil {
		return Val{}, err
	}
	args, err := e.args(c.Args)
	if err != nil {
		return Val{}, err
	}
	switch recv.K {
	case KStr:
		s, err := plainStr(recv)
		if err != nil {
			return Val{}, err
		}
		return strFunc(s, c.Name, args)
	case KInt, KFloat, KBool:
		return Val{}, errf(EKind, "function %s on %s", c.Name, recv.K)
	case KJSON:
		if c.Name == "Len" && len(args) == 0 {
			switch x := recv.J.(type) {
			case []interface{}:
				return vInt(int64(len(x)), reflect.Int), nil
			case map[string]interface{}:
				return vInt(int64(len(x)), reflect.Int), nil
			}
		}
		return Val{}, errf(EUnknown, "function %s on JSON", c.Name)
	case KNil:
		return Val{}, errf(ENilPtr, "call %s on nil", c.Name)
	case KGo:
		rv := recv.R
		switch rv.Kind() {
		case reflect.Slice, reflect.Array, reflect.Map:
			if c.Name == "Len" && len(args) == 0 {
				return vInt(int64(rv.Len()), reflect.Int), nil
			}
			return Val{}, errf(EUnknown, "function %s on container", c.Name)
		}
		return e.method(rv, c.Name, args)
	}
	return Val{}, errf(EKind, "call on %s", recv.K)
}

func strArg(args []Val, n int) ([]string, *Err) {
	if len(args) != n {
		return nil, errf(EKind, "argument count")
	}
	out := make([]string, n)
	for i, a := range args {
		s, err := plainStr(a)
		if err != nil {
			return nil, err
		}
		out[i] = s
	}
	return out, nil
}

func strFunc(s, name string, args []Val) (Val, *Err) {
	gi := func(i int) Val { return vInt(int64(i), reflect.Int) }
	switch name {
	case "Len":
		if len(args) != 0 {
			return Val{}, errf(EKind, "Len takes no argument")
		}
		return gi(len(s)), nil
	case "ToLower", "ToUpper", "Trim":
		if len(args) != 0 {
			return Val{}, errf(EKind, "%s takes no argument", name)
		}
		switch name {
		case "ToLower":
			return vStr(strings.ToLower(s)), nil
		case "ToUpper":
			return vStr(strings.ToUpper(s)), nil
		}
		return vStr(strings.TrimSpace(s)), nil
	case "Compare", "Contains", "Count", "HasPrefix", "HasSuffix", "Index", "LastIndex", "MatchString", "Split":
		a, err := strArg(args, 1)
		if err != nil {
			return Val{}, err
		}
		switch name {
		case "Compare":
			return gi(strings.Compare(s, a[0])), nil
		case "Contains":
			return vBool(strings.Contains(s, a[0])), nil
		case "Count":
			return gi(strings.Count(s, a[0])), nil
		case "HasPrefix":
			return vBool(strings.HasPrefix(s, a[0])), nil
		case "HasSuffix":
			return vBool(strings.HasSuffix(s, a[0])), nil
		case "Index":
			return gi(strings.Index(s, a[0])), nil
		case "LastIndex":
			return gi(strings.LastIndex(s, a[0])), nil
		case "MatchString":
			re, cerr := regexp.Compile(a[0])
			if cerr != nil {
				return Val{}, errf(EKind, "bad regex")
			}
			return vBool(re.MatchString(s)), nil
		case "Split":
			parts := strings.Split(s, a[0])
			return Val{K: KGo, R: reflect.ValueOf(parts)}, nil
		}
	case "Replace":
		a, err := strArg(args, 2)
		if err != nil {
			return Val{}, err
		}
		return vStr(strings.ReplaceAll(s, a[0], a[1])), nil
	case "Repeat":
		if len(args) != 1 || !isNum(args[0]) {
			return Val{}, errf(EKind, "Repeat needs a number")
		}
		n := args[0].I
		if args[0].K == KFloat {
			n = int64(args[0].F)
		}
		if n < 0 || n > 1000 {
			return Val{}, errf(EUndefined, "repeat count out of the generated domain")
		}
		return vStr(strings.Repeat(s, int(n))), nil
	case "In":
		for _, a := range args {
			x, err := plainStr(a)
			if err != nil {
				return Val{}, err
			}
			if x == s {
				return vBool(true), nil
			}
		}
		return vBool(false), nil
	}
	return Val{}, errf(EUnknown, "string function %s", name)
}

func (e *Env) builtin(name string, args []Val) (Val, *Err) {
	f64s := func() ([]float64, *Err) {
		out := make([]float64, len(args))
		for i, a := range args {
			f, err := needFloat64(a)
			if err != nil {
				return nil, err
			}
			out[i] = f
		}
		return out, nil
	}
	switch name {
	case "Complete":
		e.Eff.Complete = true
		return Val{K: KNil}, nil
	case "Retract":
		s, err := strArg(args, 1)
		if err != nil {
			return Val{}, err
		}
		e.Eff.Retracted = append(e.Eff.Retracted, s[0])
		return Val{K: KNil}, nil
	case "Forget", "Changed":
		s, err := strArg(args, 1)
		if err != nil {
			return Val{}, err
		}
		e.Eff.Forgot = append(e.Eff.Forgot, s[0])
		return Val{K: KNil}, nil
	case "Log":
		s, err := strArg(args, 1)
		if err != nil {
			return Val{}, err
		}
		e.Eff.Logged = append(e.Eff.Logged, s[0])
		return Val{K: KNil}, nil
	case "Max", "Min":
		fs, err := f64s()
		if err != nil {
			return Val{}, err
		}
		if len(fs) == 0 {
			return vFloat(0, reflect.Float64), nil
		}
		m := fs[0]
		for _, f := range fs[1:] {
			if (name == "Max" && f > m) || (name == "Min" && f < m) {
				m = f
			}
		}
		return vFloat(m, reflect.Float64), nil
	case "Abs", "Floor", "Ceil", "Round", "Trunc", "Sqrt":
		fs, err := f64s()
		if err != nil {
			return Val{}, err
		}
		if len(fs) != 1 {
			return Val{}, errf(EKind, "argument count")
		}
		var r float64
		switch name {
		case "Abs":
			r = math.Abs(fs[0])
		case "Floor":
			r = math.Floor(fs[0])
		case "Ceil":
			r = math.Ceil(fs[0])
		case "Round":
			r = math.Round(fs[0])
		case "Trunc":
			r = math.Trunc(fs[0])
		case "Sqrt":
			r = math.Sqrt(fs[0])
		}
		return checkF(r)
	case "StringContains":
		s, err := strArg(args, 2)
		if err != nil {
			return Val{}, err
		}
		return vBool(strings.Contains(s[0], s[1])), nil
	case "MakeTime":
		if len(args) != 6 {
			return Val{}, errf(EKind, "MakeTime needs 6 arguments")
		}
		var p [6]int
		for i, a := range args {
			v, err := needInt64(a)
			if err != nil {
				return Val{}, err
			}
			p[i] = int(v)
		}
		return vTime(time.Date(p[0], time.Month(p[1]), p[2], p[3], p[4], p[5], 0, time.Local)), nil
	case "GetTimeYear", "GetTimeMonth", "GetTimeDay", "GetTimeHour", "GetTimeMinute", "GetTimeSecond":
		if len(args) != 1 {
			return Val{}, errf(EKind, "argument count")
		}
		t, err := needTime(args[0])
		if err != nil {
			return Val{}, err
		}
		var r int
		switch name {
		case "GetTimeYear":
			r = t.Year()
		case "GetTimeMonth":
			r = int(t.Month())
		case "GetTimeDay":
			r = t.Day()
		case "GetTimeHour":
			r = t.Hour()
		case "GetTimeMinute":
			r = t.Minute()
		default:
			r = t.Second()
		}
		return vInt(int64(r), reflect.Int), nil
	case "IsTimeBefore", "IsTimeAfter":
		if len(args) != 2 {
			return Val{}, errf(EKind, "argument count")
		}
		a, err := needTime(args[0])
		if err != nil {
			return Val{}, err
		}
		b, err := needTime(args[1])
		if err != nil {
			return Val{}, err
		}
		if name == "IsTimeBefore" {
			return vBool(a.Before(b)), nil
		}
		return vBool(a.After(b)), nil
	case "IsNil":
		if len(args) != 1 {
			return Val{}, errf(EKind, "argument count")
		}
		a := args[0]
		switch a.K {
		case KNil:
			return vBool(true), nil
		case KGo:
			switch a.R.Kind() {
			case reflect.Ptr, reflect.Slice, reflect.Map, reflect.Interface:
				return vBool(a.R.IsNil()), nil
			}
			return vBool(false), nil
		}
		return Val{}, errf(EUndefined, "IsNil on a scalar is outside the generated domain")
	case "IsZero":
		if len(args) != 1 {
			return Val{}, errf(EKind, "argument count")
		}
		a := args[0]
		switch a.K {
		case KInt:
			return vBool(a.I == 0), nil
		case KFloat:
			return vBool(a.F == 0), nil
		case KStr:
			s, err := plainStr(a)
			if err != nil {
				return Val{}, err
			}
			return vBool(len(s) == 0), nil
		case KTime:
			return vBool(a.T.IsZero()), nil
		}
		return Val{}, errf(EUndefined, "IsZero outside the generated domain")
	}
	return Val{}, errf(EUnknown, "built-in %s", name)
}

// method implements the fact universe's methods natively (it never calls the real ones).
func (e *Env) method(recv reflect.Value, name string, args []Val) (Val, *Err) {
	for recv.Kind() == reflect.Interface {
		if recv.IsNil() {
			return Val{}, errf(ENilPtr, "method on nil interface")
		}
		recv = recv.Elem()
	}
	if recv.Kind() == reflect.Struct && recv.Type() == reflect.TypeOf(facts.Sub{}) && (name == "VTwice" || name == "VSeven") {
		// value-receiver methods are in the method set of the struct value itself
		tmp := reflect.New(recv.Type())
		tmp.Elem().Set(recv)
		recv = tmp
	}
	if recv.Kind() != reflect.Ptr {
		return Val{}, errf(EUnknown, "method %s on non-pointer", name)
	}
	i64 := func(n int) ([]int64, *Err) {
		if len(args) != n {
			return nil, errf(EKind, "argument count for %s", name)
		}
		out := make([]int64, n)
		for i, a := range args {
			v, err := needInt64(a)
			if err != nil {
				return nil, err
			}
			out[i] = v
		}
		return out, nil
	}
	switch obj := recv.Interface().(type) {
	case *facts.Sub:
		if obj == nil {
			return Val{}, errf(ENilPtr, "method on nil *Sub")
		}
		switch name {
		case "GetX":
			if len(args) != 0 {
				return Val{}, errf(EKind, "argument count")
			}
			return vInt(obj.X, reflect.Int64), nil
		case "Twice":
			a, err := i64(1)
			if err != nil {
				return Val{}, err
			}
			r, ok := mulOv(2, a[0])
			if !ok {
				return Val{}, errf(EUndefined, "overflow")
			}
			return vInt(r, reflect.Int64), nil
		case "VTwice":
			a, err := i64(1)
			if err != nil {
				return Val{}, err
			}
			r, ok := mulOv(2, a[0])
			if !ok {
				return Val{}, errf(EUndefined, "overflow")
			}
			return vInt(r, reflect.Int64), nil
		case "VSeven":
			if len(args) != 0 {
				return Val{}, errf(EKind, "argument count")
			}
			return vInt(7, reflect.Int64), nil
		}
		return Val{}, errf(EUnknown, "no method %s on Sub", name)
	case *facts.Fact:
		if obj == nil {
			return Val{}, errf(ENilPtr, "method on nil *Fact")
		}
		switch name {
		case "Add64":
			a, err := i64(2)
			if err != nil {
				return Val{}, err
			}
			r, ok := addOv(a[0], a[1])
			if !ok {
				return Val{}, errf(EUndefined, "overflow")
			}
			return vInt(r, reflect.Int64), nil
		case "Sub3":
			a, err := i64(3)
			if err != nil {
				return Val{}, err
			}
			r, ok := subOv(a[0], a[1])
			if ok {
				r, ok = subOv(r, a[2])
			}
			if !ok {
				return Val{}, errf(EUndefined, "overflow")
			}
			return vInt(r, reflect.Int64), nil
		case "Sum":
			a, err := i64(len(args))
			if err != nil {
				return Val{}, err
			}
			var s int64
			for _, x := range a {
				var ok bool
				s, ok = addOv(s, x)
				if !ok {
					return Val{}, errf(EUndefined, "overflow")
				}
			}
			return vInt(s, reflect.Int64), nil
		case "Cat":
			if len(args) < 1 {
				return Val{}, errf(EKind, "argument count")
			}
			ss := make([]string, len(args))
			for i, a := range args {
				s, err := plainStr(a)
				if err != nil {
					return Val{}, err
				}
				ss[i] = s
			}
			return vStr(strings.Join(ss[1:], ss[0])), nil
		case "Half":
			if len(args) != 1 {
				return Val{}, errf(EKind, "argument count")
			}
			f, err := needFloat64(args[0])
			if err != nil {
				return Val{}, err
			}
			return checkF(f / 2)
		case "IsPos":
			a, err := i64(1)
			if err != nil {
				return Val{}, err
			}
			return vBool(a[0] > 0), nil
		case "Neg":
			if len(args) != 1 {
				return Val{}, errf(EKind, "argument count")
			}
			b, err := needBool(args[0])
			if err != nil {
				return Val{}, err
			}
			return vBool(!b), nil
		case "Later":
			if len(args) != 2 {
				return Val{}, errf(EKind, "argument count")
			}
			t, err := needTime(args[0])
			if err != nil {
				return Val{}, err
			}
			s, err := needInt64(args[1])
			if err != nil {
				return Val{}, err
			}
			return vTime(t.Add(time.Duration(s) * time.Second)), nil
		case "Mk":
			a, err := i64(1)
			if err != nil {
				return Val{}, err
			}
			x := a[0]
			return Val{K: KGo, R: reflect.ValueOf(&facts.Sub{X: x, Y: float64(x) / 2, S: "mk" + strconv.FormatInt(x, 10), B: x%2 == 0, Arr: []int64{x, x + 1, x + 2}})}, nil
		case "IsNB":
			if len(args) != 0 {
				return Val{}, errf(EKind, "argument count")
			}
			return Val{K: KBool, B: bool(obj.NB)}, nil
		case "GetH":
			if len(args) != 0 {
				return Val{}, errf(EKind, "argument count")
			}
			return vInt(obj.H, reflect.Int64), nil
		case "BumpH":
			obj.H++
			return Val{K: KNil}, nil
		case "SetH":
			a, err := i64(1)
			if err != nil {
				return Val{}, err
			}
			obj.H = a[0]
			return Val{K: KNil}, nil
		case "PokeI64":
			a, err := i64(1)
			if err != nil {
				return Val{}, err
			}
			obj.I64 = a[0]
			return Val{K: KNil}, nil
		case "PokeS":
			if len(args) != 1 {
				return Val{}, errf(EKind, "argument count")
			}
			s, err := plainStr(args[0])
			if err != nil {
				return Val{}, err
			}
			obj.S = s
			return Val{K: KNil}, nil
		case "P":
			a, err := i64(1)
			if err != nil {
				return Val{}, err
			}
			return vInt(a[0], reflect.Int64), nil
		case "PB":
			a, err := i64(1)
			if err != nil {
				return Val{}, err
			}
			return vBool(a[0]%2 == 0), nil
		case "PV":
			a, err := i64(2)
			if err != nil {
				return Val{}, err
			}
			r, ok := addOv(a[0], a[1])
			if !ok {
				return Val{}, errf(EUndefined, "overflow")
			}
			return vInt(r, reflect.Int64), nil
		case "PS":
			if len(args) != 2 {
				return Val{}, errf(EKind, "argument count")
			}
			id, err := needInt64(args[0])
			if err != nil {
				return Val{}, err
			}
			s, err := plainStr(args[1])
			if err != nil {
				return Val{}, err
			}
			return vInt(id+int64(len(s)), reflect.Int64), nil
		case "Mark":
			if _, err := i64(1); err != nil {
				return Val{}, err
			}
			return Val{K: KNil}, nil
		case "Boom", "BoomB", "Two", "BoomI", "BoomV", "BoomE":
			return Val{}, errf(EMethod, "failing method %s", name)
		case "NilSub":
			return Val{K: KGo, R: reflect.ValueOf((*facts.Sub)(nil))}, nil
		}
		return Val{}, errf(EUnknown, "no method %s on Fact", name)
	}
	return Val{}, errf(EUnknown, "method %s on %s", name, recv.Type())
}
