package ref

import (
	"math"
	"reflect"

	"verif/internal/gast"
)

// Exec executes one statement on the environment's state (in place).
func (e *Env) Exec(s gast.Stmt) error {
	switch x := s.(type) {
	case *gast.CallStmt:
		if _, err := e.eval(x.X); err != nil {
			return err
		}
		return nil
	case *gast.Assign:
		if err := e.assign(x); err != nil {
			return err
		}
		return nil
	}
	return errf(EKind, "unknown statement %T", s)
}

// ExecAll executes statements in textual order and stops at the first error; it returns the
// number of statements completed.
func (e *Env) ExecAll(ss []gast.Stmt) (int, error) {
	for i, s := range ss {
		if err := e.Exec(s); err != nil {
			return i, err
		}
	}
	return len(ss), nil
}

func (e *Env) assign(a *gast.Assign) *Err {
	rhs, err := e.eval(a.RHS)
	if err != nil {
		return err
	}
	val := rhs
	if a.Op != "=" {
		cur, err := e.evalPath(a.LHS)
		if err != nil {
			return err
		}
		var op gast.Op
		switch a.Op {
		case "+=":
			op = gast.OpAdd
		case "-=":
			op = gast.OpSub
		case "*=":
			op = gast.OpMul
		case "/=":
			op = gast.OpDiv
		default:
			return errf(EKind, "assignment operator %s", a.Op)
		}
		val, err = BinOp(op, cur, rhs)
		if err != nil {
			return err
		}
	}
	return e.store(a.LHS, val)
}

func (e *Env) store(p *gast.Path, v Val) *Err {
	if len(p.Steps) == 0 {
		// top-level variable: the data context entry is replaced by the value as is
		if v.K == KStr && v.Segs != nil {
			return errf(EUndefined, "float-rendered string stored")
		}
		if v.K == KNil || v.K == KGo || v.K == KJSON {
			return errf(EUndefined, "top-level variable assigned a non-scalar")
		}
		if _, isGo := e.St.Go[p.Root]; isGo {
			return errf(EUndefined, "assignment over a fact name")
		}
		if _, isJ := e.St.JSON[p.Root]; isJ {
			return errf(EUndefined, "assignment over a JSON fact name")
		}
		e.St.Top[p.Root] = v.Dynamic()
		return nil
	}
	parentPath := &gast.Path{Root: p.Root, Steps: p.Steps[:len(p.Steps)-1]}
	last := p.Steps[len(p.Steps)-1]
	parent, err := e.evalPathRaw(parentPath)
	if err != nil {
		return err
	}
	if last.Index != nil {
		idx, err := e.eval(last.Index)
		if err != nil {
			return err
		}
		return e.storeIndex(parent, idx, v)
	}
	return e.storeField(parent, last.Field, v)
}

// evalPathRaw is evalPath without the pointer-to-number look-through on the last step.
func (e *Env) evalPathRaw(p *gast.Path) (Val, *Err) { return e.evalPath(p) }

func (e *Env) storeField(parent Val, name string, v Val) *Err {
	if parent.K == KJSON {
		m, ok := parent.J.(map[string]interface{})
		if !ok {
			return errf(EKind, "member store on JSON non-object")
		}
		if v.K == KStr && v.Segs != nil {
			return errf(EUndefined, "float-rendered string stored")
		}
		m[name] = v.Dynamic()
		return nil
	}
	rv, err := structOf(parent)
	if err != nil {
		return err
	}
	f := rv.FieldByName(name)
	if !f.IsValid() || !f.CanSet() {
		return errf(EField, "field %s not settable", name)
	}
	return setTyped(f, v)
}

func (e *Env) storeIndex(parent Val, idx Val, v Val) *Err {
	switch parent.K {
	case KJSON:
		switch c := parent.J.(type) {
		case []interface{}:
			if idx.K != KInt {
				return errf(EKind, "array index kind")
			}
			if idx.I < 0 || idx.I >= int64(len(c)) {
				return errf(EIndex, "index out of range")
			}
			if v.K == KStr && v.Segs != nil {
				return errf(EUndefined, "float-rendered string stored")
			}
			c[idx.I] = v.Dynamic()
			return nil
		case map[string]interface{}:
			if idx.K != KStr {
				return errf(EKind, "JSON selector kind")
			}
			if v.K == KStr && v.Segs != nil {
				return errf(EUndefined, "float-rendered string stored")
			}
			c[idx.S] = v.Dynamic()
			return nil
		}
		return errf(EKind, "not an array nor map")
	case KGo:
		rv := parent.R
		switch rv.Kind() {
		case reflect.Slice, reflect.Array:
			if idx.K != KInt {
				return errf(EKind, "array index kind")
			}
			if idx.I < 0 || idx.I >= int64(rv.Len()) {
				return errf(EIndex, "index out of range")
			}
			return setTyped(rv.Index(int(idx.I)), v)
		case reflect.Map:
			k, err := mapKey(rv, idx)
			if err != nil {
				return err
			}
			// no conversion for map entries: the value must have exactly the element type
			et := rv.Type().Elem()
			var nv reflect.Value
			switch {
			case v.K == KInt && et.Kind() == v.GK:
				nv = reflect.New(et).Elem()
				if isUnsigned(v.GK) {
					nv.SetUint(uint64(v.I))
				} else {
					nv.SetInt(v.I)
				}
			case v.K == KFloat && et.Kind() == v.GK:
				nv = reflect.ValueOf(v.F).Convert(et)
			case v.K == KStr && et.Kind() == reflect.String:
				if v.Segs != nil {
					return errf(EUndefined, "float-rendered string stored into a map")
				}
				nv = reflect.ValueOf(v.S)
			case v.K == KBool && et.Kind() == reflect.Bool:
				nv = reflect.ValueOf(v.B)
			case v.K == KGo && et.Kind() == reflect.Ptr && v.R.IsValid() && v.R.Kind() == reflect.Ptr && !v.R.IsNil() && v.R.Type() == et:
				nv = v.R // an object replaced as a whole
			default:
				if isNum(v) && (et.Kind() >= reflect.Int && et.Kind() <= reflect.Float64) {
					return errf(EUndefined, "map entry written with a value of another numeric kind")
				}
				return errf(EKind, "map entry kind mismatch")
			}
			rv.SetMapIndex(k, nv)
			return nil
		}
	case KNil:
		return errf(ENilPtr, "selector store on nil")
	}
	return errf(EKind, "not an array nor map")
}

// setTyped stores v into a typed Go location with Go conversion semantics between numeric
// kinds (struct fields, slice elements, pointer-to-number fields).
func setTyped(dst reflect.Value, v Val) *Err {
	if dst.Kind() == reflect.Ptr && dst.Type().Elem().Kind() != reflect.Struct && isNum(v) {
		if dst.IsNil() {
			return errf(ENilPtr, "store through nil pointer")
		}
		dst = dst.Elem()
	}
	switch dst.Kind() {
	case reflect.Int, reflect.Int8, reflect.Int16, reflect.Int32, reflect.Int64:
		if !isNum(v) {
			return errf(EKind, "number expected")
		}
		var i int64
		if v.K == KInt {
			i = v.I
		} else {
			if math.IsNaN(v.F) || v.F >= 9.3e18 || v.F <= -9.3e18 {
				return errf(EUndefined, "float out of integer range")
			}
			i = int64(v.F)
		}
		if dst.OverflowInt(i) {
			return errf(EUndefined, "value outside the destination's range")
		}
		dst.SetInt(i)
		return nil
	case reflect.Uint, reflect.Uint8, reflect.Uint16, reflect.Uint32, reflect.Uint64:
		if !isNum(v) {
			return errf(EKind, "number expected")
		}
		var i int64
		if v.K == KInt {
			i = v.I
		} else {
			if math.IsNaN(v.F) || v.F >= 9.3e18 || v.F <= -1 {
				return errf(EUndefined, "float out of unsigned range")
			}
			i = int64(v.F)
		}
		if i < 0 || dst.OverflowUint(uint64(i)) {
			return errf(EUndefined, "value outside the destination's range")
		}
		dst.SetUint(uint64(i))
		return nil
	case reflect.Float32, reflect.Float64:
		if !isNum(v) {
			return errf(EKind, "number expected")
		}
		f := asFloat(v)
		if dst.Kind() == reflect.Float32 && !math.IsInf(f, 0) && math.Abs(f) > math.MaxFloat32 {
			return errf(EUndefined, "value outside float32 range")
		}
		dst.SetFloat(f)
		return nil
	case reflect.String:
		if v.K != KStr {
			return errf(EKind, "string expected")
		}
		if v.Segs != nil {
			return errf(EUndefined, "float-rendered string stored")
		}
		dst.SetString(v.S)
		return nil
	case reflect.Bool:
		if v.K != KBool {
			return errf(EKind, "bool expected")
		}
		dst.SetBool(v.B)
		return nil
	case reflect.Struct:
		if dst.Type() == timeType {
			if v.K != KTime {
				return errf(EKind, "time expected")
			}
			dst.Set(reflect.ValueOf(v.T))
			return nil
		}
	case reflect.Ptr:
		// an object replaced as a whole (F.Sub = F.Mk(3)): the pointer is stored as is
		if v.K == KGo && v.R.IsValid() && v.R.Kind() == reflect.Ptr && !v.R.IsNil() && v.R.Type() == dst.Type() {
			dst.Set(v.R)
			return nil
		}
	}
	return errf(EUndefined, "store into unsupported destination kind %s", dst.Kind())
}
