package ref

import (
	"math"
	"strconv"
)

// MatchTemplate reports whether got is an acceptable rendering of the expected string value:
// literal segments must match exactly; a float segment accepts any decimal rendering that
// parses back to the value within one unit of the sixth decimal (the format of floats in
// concatenations is not documented) or 1e-12 relative.
func MatchTemplate(want Val, got string) bool {
	if want.Segs == nil {
		return want.S == got
	}
	return matchSegs(want.Segs, got)
}

func matchSegs(segs []Seg, s string) bool {
	if len(segs) == 0 {
		return s == ""
	}
	sg := segs[0]
	if !sg.IsF {
		if len(s) < len(sg.Lit) || s[:len(sg.Lit)] != sg.Lit {
			return false
		}
		return matchSegs(segs[1:], s[len(sg.Lit):])
	}
	// try every numeric-looking prefix
	for n := 1; n <= len(s); n++ {
		c := s[n-1]
		if !((c >= '0' && c <= '9') || c == '.' || c == '-' || c == '+' || c == 'e' || c == 'E') {
			break
		}
		f, err := strconv.ParseFloat(s[:n], 64)
		if err != nil {
			continue
		}
		if floatClose(f, sg.F) && matchSegs(segs[1:], s[n:]) {
			return true
		}
	}
	return false
}

func floatClose(a, b float64) bool {
	if a == b {
		return true
	}
	d := math.Abs(a - b)
	return d <= 1.0000001e-6 || d <= 1e-12*math.Max(math.Abs(a), math.Abs(b))
}
