// Package facts is the fact universe of the verification harness: compiled Go types with
// grule-compatible methods, a State (Go facts + JSON facts + top-level variables), deep
// copy / deep equality over that state, and the probe machinery used to count, fail or
// cancel from inside fact methods.
package facts

import (
	"fmt"
	"strings"
	"time"
)

// Sub is the nested struct reached through pointers, values, interfaces, slices and maps.
type Sub struct {
	X   int64
	Y   float64
	S   string
	B   bool
	Arr []int64

	owner *Fact // the fact whose probe state counts this object's probe methods (harness state, not fact data)
}

// Switch is a boolean with a type name of its own.
type Switch bool

// Core and Base are embedded in Fact (Base directly, Core through Base). Fact's own I64 and S shadow Base.I64 and
// Base.S; Base.Mid shadows Core.Mid; Deep is promoted through both levels. Generated rules spell each of these
// locations in one way only: F.Base.I64, F.Base.S, F.Mid, F.Base.Core.Mid, F.Deep.
type Core struct {
	Deep int64
	Mid  int64
}

type Base struct {
	Core
	I64 int64
	S   string
	Mid int64
}

// Fact is the main fact type. Every field is exported so the engine can reach it.
type Fact struct {
	Base
	I8   int8
	I16  int16
	I32  int32
	I64  int64
	I    int
	U8   uint8
	U16  uint16
	U32  uint32
	U64  uint64
	U    uint
	F32  float32
	F64  float64
	S    string
	S2   string
	B    bool
	B2   bool
	T    time.Time
	T2   time.Time
	PI   *int64
	PF   *float64
	Sub  *Sub
	Val  Sub
	Any  interface{} // holds *Sub (distinct object from Sub)
	AnyN interface{} // holds a number, string, bool or time (C19 only; not serialised)

	Arr   []int64
	Arr32 []int32
	AU8   []uint8
	FArr  []float64
	SArr  []string
	BArr  []bool
	RO    []int64          // never written by generated rules: may be read with computed index
	ROM   map[string]int64 // never written by generated rules: may be read with a computed key
	// booleans behind a pointer / inside an interface value, with constant content (never written by rules)
	PTrue  *bool
	PFalse *bool
	ATrue  interface{}
	AFalse interface{}
	NB     Switch // a named boolean type (never written by rules)
	Subs   []*Sub

	M    map[string]int64
	MF   map[string]float64
	MS   map[string]string
	MB   map[string]bool
	MI   map[int64]string
	MSub map[string]*Sub

	Log string
	H   int64 // hidden state read by GetH / changed by BumpH

	pr *Probe
}

// ---------------------------------------------------------------------------------------------
// Probe machinery

// FailMode says what a scheduled probe invocation does.
type FailMode int

const (
	FailNone       FailMode = iota
	FailPanic               // panic("probe failure")
	FailCancel              // invoke Cancel() and then return normally
	FailNilDeref            // dereference a nil pointer (runtime panic)
	FailPanicValue          // panic with a value that is neither an error nor a string (a struct)
	FailPanicError          // panic with an error value
)

// Bailout is a panic value that is neither an error, a string nor a Stringer.
type Bailout struct{ Code int }

// ProbeCall records one invocation.
type ProbeCall struct {
	Name string
	ID   int64
	Seq  int // position in the harness event stream (filled by OnCall)
}

// Probe is the state shared by all probe methods of a fact.
type Probe struct {
	Oracle  bool // neutral mode: no counting, no failure, no cancellation
	N       int  // number of non-oracle invocations so far
	FailAt  int  // 1-based invocation index that fails (0 = none)
	Mode    FailMode
	Cancel  func()
	OnCall  func(name string, id int64, n int)
	Calls   []ProbeCall
	Retvals map[int64]int64 // optional override of P's result per id
}

// SetProbe attaches probe state.
func (f *Fact) SetProbe(p *Probe) {
	f.pr = p
	f.adopt()
}

// SetWrapped (re)creates the wrapped booleans (they are constants: not part of the serialised state).
func (f *Fact) SetWrapped() {
	t, fl := true, false
	f.PTrue, f.PFalse, f.ATrue, f.AFalse = &t, &fl, true, false
}

// adopt makes the probe methods of the reachable Sub objects count on this fact's probe.
func (f *Fact) adopt() {
	if f.PTrue == nil {
		f.SetWrapped()
	}
	if f.Sub != nil {
		f.Sub.owner = f
	}
	if s, ok := f.Any.(*Sub); ok && s != nil {
		s.owner = f
	}
	for _, s := range f.Subs {
		if s != nil {
			s.owner = f
		}
	}
	for _, s := range f.MSub {
		if s != nil {
			s.owner = f
		}
	}
}

// GetProbe returns probe state.
func (f *Fact) GetProbe() *Probe { return f.pr }

func (f *Fact) hit(name string, id int64) {
	p := f.pr
	if p == nil || p.Oracle {
		return
	}
	p.N++
	p.Calls = append(p.Calls, ProbeCall{Name: name, ID: id})
	if p.OnCall != nil {
		p.OnCall(name, id, p.N)
	}
	if p.FailAt != 0 && p.N == p.FailAt {
		switch p.Mode {
		case FailPanic:
			panic(fmt.Sprintf("probe failure at call %d (%s %d)", p.N, name, id))
		case FailCancel:
			if p.Cancel != nil {
				p.Cancel()
			}
		case FailNilDeref:
			var s *Sub
			_ = s.X
		case FailPanicValue:
			panic(Bailout{Code: p.N})
		case FailPanicError:
			panic(fmt.Errorf("probe failure at call %d (%s %d)", p.N, name, id))
		}
	}
}

// P is a counted probe returning its id (or the override).
func (f *Fact) P(id int64) int64 {
	f.hit("P", id)
	if f.pr != nil && f.pr.Retvals != nil {
		if v, ok := f.pr.Retvals[id]; ok {
			return v
		}
	}
	return id
}

// PB is a counted boolean probe: true iff id is even.
func (f *Fact) PB(id int64) bool {
	f.hit("PB", id)
	return id%2 == 0
}

// PV is a counted probe with a value argument: id + v.
func (f *Fact) PV(id, v int64) int64 {
	f.hit("PV", id)
	return id + v
}

// PS is a counted probe with a string argument: returns len(s)+id.
func (f *Fact) PS(id int64, s string) int64 {
	f.hit("PS", id)
	return id + int64(len(s))
}

// Mark is a counted action probe without result (used as a statement).
func (f *Fact) Mark(id int64) {
	f.hit("Mark", id)
}

// ---------------------------------------------------------------------------------------------
// Pure methods (functions of their arguments only)

func (f *Fact) Add64(a, b int64) int64 { return a + b }

func (f *Fact) Sum(xs ...int64) int64 {
	var s int64
	for _, x := range xs {
		s += x
	}
	return s
}

func (f *Fact) Cat(sep string, xs ...string) string { return strings.Join(xs, sep) }

func (f *Fact) Half(x float64) float64 { return x / 2 }

func (f *Fact) IsPos(x int64) bool { return x > 0 }

func (f *Fact) Neg(b bool) bool { return !b }

func (f *Fact) Sub3(a, b, c int64) int64 { return a - b - c }

func (f *Fact) Later(t time.Time, secs int64) time.Time {
	return t.Add(time.Duration(secs) * time.Second)
}

func (f *Fact) Pick(x interface{}) string { return fmt.Sprintf("%T", x) }

// Mk returns a fresh Sub with constant content (for call chains F.Mk(3).X).
func (f *Fact) Mk(x int64) *Sub {
	return &Sub{X: x, Y: float64(x) / 2, S: fmt.Sprintf("mk%d", x), B: x%2 == 0, Arr: []int64{x, x + 1, x + 2}, owner: f}
}

// Kids returns fresh Sub objects with constant content (receivers selected from a call result: F.Kids()[0].PX(1)).
func (f *Fact) Kids() []*Sub {
	return []*Sub{{X: 1, S: "kid0", owner: f}, {X: 2, S: "kid1", B: true, owner: f}}
}

// Table is Kids as a map.
func (f *Fact) Table() map[string]*Sub {
	return map[string]*Sub{"k": {X: 3, S: "tk", owner: f}, "l": {X: 4, S: "tl", owner: f}}
}

// ---------------------------------------------------------------------------------------------
// Methods with hidden state (only used together with Forget/Changed)

func (f *Fact) GetH() int64 { return f.H }

// BumpH changes hidden state from "internal struct logic".
func (f *Fact) BumpH() { f.H++ }

// SetH sets hidden state.
func (f *Fact) SetH(v int64) { f.H = v }

// PokeI64 changes the exported field I64 from "internal struct logic" (the engine does not see
// the write; rules must announce it with Forget/Changed).
func (f *Fact) PokeI64(v int64) { f.I64 = v }

// PokeS changes the exported field S from internal logic.
func (f *Fact) PokeS(v string) { f.S = v }

// ---------------------------------------------------------------------------------------------
// Failing methods (C14)

func (f *Fact) Boom() int64 { panic("boom") }

func (f *Fact) BoomB() bool { panic("boomb") }

// IsNB returns the named boolean.
func (f *Fact) IsNB() Switch { return f.NB }

// BoomI panics with an integer, BoomV with a struct value, BoomE with an error.
func (f *Fact) BoomI() int64 { panic(42) }

func (f *Fact) BoomV() int64 { panic(Bailout{Code: 7}) }

func (f *Fact) BoomE() int64 { panic(fmt.Errorf("boome")) }

func (f *Fact) Two() (int64, error) { return 1, fmt.Errorf("two results") }

func (f *Fact) NilSub() *Sub { return nil }

// Methods on Sub
func (s *Sub) GetX() int64 { return s.X }

func (s *Sub) Twice(v int64) int64 { return 2 * v }

// Value-receiver methods (pure): callable on a Sub value and through a *Sub alike. Together with the
// pointer-receiver methods they give Sub and *Sub method tables of different layout.
func (s Sub) VTwice(v int64) int64 { return 2 * v }
func (s Sub) VSeven() int64        { return 7 }

// Counted probes on a Sub (pure: the result depends on the arguments only).
func (s *Sub) hit(name string, id int64) {
	if s.owner != nil {
		s.owner.hit(name, id)
	}
}

// PX is a counted probe returning its id.
func (s *Sub) PX(id int64) int64 { s.hit("PX", id); return id }

// PBX is a counted boolean probe.
func (s *Sub) PBX(id int64) bool { s.hit("PBX", id); return id%2 == 0 }

// PVX is a counted probe returning its second argument.
func (s *Sub) PVX(id, v int64) int64 { s.hit("PVX", id); return v }

// PLabel is a counted probe returning a constant string.
func (s *Sub) PLabel(id int64) string { s.hit("PLabel", id); return "label" }
