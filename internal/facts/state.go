package facts

import (
	"encoding/json"
	"fmt"
	"math"
	"reflect"
	"sort"
	"time"
)

// State is everything a rule can read or write: named Go facts, named JSON documents
// (as decoded trees) and named top-level data-context variables.
type State struct {
	Go   map[string]*Fact       `json:"go,omitempty"`
	JSON map[string]interface{} `json:"json,omitempty"`
	Top  map[string]interface{} `json:"top,omitempty"`
}

var timeType = reflect.TypeOf(time.Time{})

// Copy returns a deep copy (probe state is not copied: it is harness state, not fact data).
func (s *State) Copy() *State {
	out := &State{Go: map[string]*Fact{}, JSON: map[string]interface{}{}, Top: map[string]interface{}{}}
	for k, f := range s.Go {
		out.Go[k] = CopyFact(f)
	}
	for k, j := range s.JSON {
		out.JSON[k] = CopyTree(j)
	}
	for k, v := range s.Top {
		out.Top[k] = CopyTree(v)
	}
	return out
}

// CopyFact deep-copies a fact (exported fields only).
func CopyFact(f *Fact) *Fact {
	if f == nil {
		return nil
	}
	out := &Fact{}
	deepCopy(reflect.ValueOf(out).Elem(), reflect.ValueOf(f).Elem())
	return out
}

func deepCopy(dst, src reflect.Value) {
	switch src.Kind() {
	case reflect.Ptr:
		if src.IsNil() {
			dst.Set(reflect.Zero(src.Type()))
			return
		}
		n := reflect.New(src.Type().Elem())
		deepCopy(n.Elem(), src.Elem())
		dst.Set(n)
	case reflect.Interface:
		if src.IsNil() {
			dst.Set(reflect.Zero(src.Type()))
			return
		}
		e := src.Elem()
		n := reflect.New(e.Type()).Elem()
		deepCopy(n, e)
		dst.Set(n)
	case reflect.Struct:
		if src.Type() == timeType {
			dst.Set(src)
			return
		}
		for i := 0; i < src.NumField(); i++ {
			if src.Type().Field(i).PkgPath != "" {
				continue // unexported
			}
			deepCopy(dst.Field(i), src.Field(i))
		}
	case reflect.Slice:
		if src.IsNil() {
			dst.Set(reflect.Zero(src.Type()))
			return
		}
		n := reflect.MakeSlice(src.Type(), src.Len(), src.Len())
		for i := 0; i < src.Len(); i++ {
			deepCopy(n.Index(i), src.Index(i))
		}
		dst.Set(n)
	case reflect.Map:
		if src.IsNil() {
			dst.Set(reflect.Zero(src.Type()))
			return
		}
		n := reflect.MakeMapWithSize(src.Type(), src.Len())
		it := src.MapRange()
		for it.Next() {
			v := reflect.New(src.Type().Elem()).Elem()
			deepCopy(v, it.Value())
			n.SetMapIndex(it.Key(), v)
		}
		dst.Set(n)
	default:
		dst.Set(src)
	}
}

// CopyTree deep-copies a JSON-like tree (maps, slices, scalars, time values).
func CopyTree(v interface{}) interface{} {
	switch x := v.(type) {
	case map[string]interface{}:
		o := make(map[string]interface{}, len(x))
		for k, e := range x {
			o[k] = CopyTree(e)
		}
		return o
	case []interface{}:
		o := make([]interface{}, len(x))
		for i, e := range x {
			o[i] = CopyTree(e)
		}
		return o
	default:
		return v
	}
}

// Diff compares two states and returns human-readable differences (empty = equal).
// Typed Go locations are compared by kind and value; JSON members and top-level variables
// numerically (they have no declared type).
func Diff(want, got *State) []string {
	var out []string
	names := map[string]bool{}
	for k := range want.Go {
		names[k] = true
	}
	for k := range got.Go {
		names[k] = true
	}
	for _, k := range sortedKeys(names) {
		w, g := want.Go[k], got.Go[k]
		if w == nil || g == nil {
			if w != g {
				out = append(out, fmt.Sprintf("%s: presence differs", k))
			}
			continue
		}
		diffValue(k, reflect.ValueOf(w).Elem(), reflect.ValueOf(g).Elem(), &out)
	}
	diffTreeMap("json", want.JSON, got.JSON, &out)
	diffTreeMap("top", want.Top, got.Top, &out)
	return out
}

func sortedKeys(m map[string]bool) []string {
	ks := make([]string, 0, len(m))
	for k := range m {
		ks = append(ks, k)
	}
	sort.Strings(ks)
	return ks
}

func diffTreeMap(label string, w, g map[string]interface{}, out *[]string) {
	names := map[string]bool{}
	for k := range w {
		names[k] = true
	}
	for k := range g {
		names[k] = true
	}
	for _, k := range sortedKeys(names) {
		wv, wok := w[k]
		gv, gok := g[k]
		if wok != gok {
			*out = append(*out, fmt.Sprintf("%s %s: presence differs (want %v got %v)", label, k, wok, gok))
			continue
		}
		diffTree(k, wv, gv, out)
	}
}

// NumOf extracts a numeric value from any Go numeric dynamic type.
func NumOf(v interface{}) (f float64, i int64, isInt, ok bool) {
	rv := reflect.ValueOf(v)
	switch rv.Kind() {
	case reflect.Int, reflect.Int8, reflect.Int16, reflect.Int32, reflect.Int64:
		return float64(rv.Int()), rv.Int(), true, true
	case reflect.Uint, reflect.Uint8, reflect.Uint16, reflect.Uint32, reflect.Uint64:
		return float64(rv.Uint()), int64(rv.Uint()), true, true
	case reflect.Float32, reflect.Float64:
		return rv.Float(), 0, false, true
	}
	return 0, 0, false, false
}

func diffTree(path string, w, g interface{}, out *[]string) {
	switch wx := w.(type) {
	case map[string]interface{}:
		gx, ok := g.(map[string]interface{})
		if !ok {
			*out = append(*out, fmt.Sprintf("%s: want object got %T", path, g))
			return
		}
		names := map[string]bool{}
		for k := range wx {
			names[k] = true
		}
		for k := range gx {
			names[k] = true
		}
		for _, k := range sortedKeys(names) {
			wv, wok := wx[k]
			gv, gok := gx[k]
			if wok != gok {
				*out = append(*out, fmt.Sprintf("%s.%s: presence differs (want %v got %v)", path, k, wok, gok))
				continue
			}
			diffTree(path+"."+k, wv, gv, out)
		}
	case []interface{}:
		gx, ok := g.([]interface{})
		if !ok || len(gx) != len(wx) {
			*out = append(*out, fmt.Sprintf("%s: array shape differs", path))
			return
		}
		for i := range wx {
			diffTree(fmt.Sprintf("%s[%d]", path, i), wx[i], gx[i], out)
		}
	default:
		if wt, ok := w.(time.Time); ok {
			gt, ok2 := g.(time.Time)
			if !ok2 || !wt.Equal(gt) {
				*out = append(*out, fmt.Sprintf("%s: want %v got %v", path, w, g))
			}
			return
		}
		wf, wi, wInt, wNum := NumOf(w)
		gf, gi, gInt, gNum := NumOf(g)
		if wNum || gNum {
			if !(wNum && gNum) {
				*out = append(*out, fmt.Sprintf("%s: want %v (%T) got %v (%T)", path, w, w, g, g))
				return
			}
			eq := false
			if wInt && gInt {
				eq = wi == gi
			} else {
				eq = floatEq(wf, gf)
			}
			if !eq {
				*out = append(*out, fmt.Sprintf("%s: want %v (%T) got %v (%T)", path, w, w, g, g))
			}
			return
		}
		if !reflect.DeepEqual(w, g) {
			*out = append(*out, fmt.Sprintf("%s: want %#v got %#v", path, w, g))
		}
	}
}

func floatEq(a, b float64) bool {
	if a == b {
		return true
	}
	if math.IsNaN(a) && math.IsNaN(b) {
		return true
	}
	d := math.Abs(a - b)
	m := math.Max(math.Abs(a), math.Abs(b))
	return d <= 1e-12*m
}

func diffValue(path string, w, g reflect.Value, out *[]string) {
	if w.Type() != g.Type() {
		*out = append(*out, fmt.Sprintf("%s: type %s vs %s", path, w.Type(), g.Type()))
		return
	}
	switch w.Kind() {
	case reflect.Ptr, reflect.Interface:
		if w.IsNil() || g.IsNil() {
			if w.IsNil() != g.IsNil() {
				*out = append(*out, fmt.Sprintf("%s: nil-ness differs", path))
			}
			return
		}
		diffValue(path, w.Elem(), g.Elem(), out)
	case reflect.Struct:
		if w.Type() == timeType {
			wt := w.Interface().(time.Time)
			gt := g.Interface().(time.Time)
			if !wt.Equal(gt) {
				*out = append(*out, fmt.Sprintf("%s: want %v got %v", path, wt, gt))
			}
			return
		}
		for i := 0; i < w.NumField(); i++ {
			sf := w.Type().Field(i)
			if sf.PkgPath != "" {
				continue
			}
			diffValue(path+"."+sf.Name, w.Field(i), g.Field(i), out)
		}
	case reflect.Slice:
		if w.Len() != g.Len() {
			*out = append(*out, fmt.Sprintf("%s: len %d vs %d", path, w.Len(), g.Len()))
			return
		}
		for i := 0; i < w.Len(); i++ {
			diffValue(fmt.Sprintf("%s[%d]", path, i), w.Index(i), g.Index(i), out)
		}
	case reflect.Map:
		if w.Len() != g.Len() {
			*out = append(*out, fmt.Sprintf("%s: map size %d vs %d", path, w.Len(), g.Len()))
		}
		keys := w.MapKeys()
		sort.Slice(keys, func(i, j int) bool { return fmt.Sprint(keys[i].Interface()) < fmt.Sprint(keys[j].Interface()) })
		for _, k := range keys {
			gv := g.MapIndex(k)
			if !gv.IsValid() {
				*out = append(*out, fmt.Sprintf("%s[%v]: missing", path, k.Interface()))
				continue
			}
			diffValue(fmt.Sprintf("%s[%v]", path, k.Interface()), w.MapIndex(k), gv, out)
		}
	case reflect.Float32, reflect.Float64:
		if !floatEq(w.Float(), g.Float()) {
			*out = append(*out, fmt.Sprintf("%s: want %v got %v", path, w.Float(), g.Float()))
		}
	case reflect.Int, reflect.Int8, reflect.Int16, reflect.Int32, reflect.Int64:
		if w.Int() != g.Int() {
			*out = append(*out, fmt.Sprintf("%s: want %d got %d", path, w.Int(), g.Int()))
		}
	case reflect.Uint, reflect.Uint8, reflect.Uint16, reflect.Uint32, reflect.Uint64:
		if w.Uint() != g.Uint() {
			*out = append(*out, fmt.Sprintf("%s: want %d got %d", path, w.Uint(), g.Uint()))
		}
	case reflect.String:
		if w.String() != g.String() {
			*out = append(*out, fmt.Sprintf("%s: want %q got %q", path, w.String(), g.String()))
		}
	case reflect.Bool:
		if w.Bool() != g.Bool() {
			*out = append(*out, fmt.Sprintf("%s: want %v got %v", path, w.Bool(), g.Bool()))
		}
	}
}

// MarshalJSONDoc renders a JSON tree as the document handed to DataContext.AddJSON.
func MarshalJSONDoc(tree interface{}) []byte {
	b, err := json.Marshal(tree)
	if err != nil {
		panic(err)
	}
	return b
}

// Describe renders a state compactly for replay files and samples.
func (s *State) Describe() map[string]interface{} {
	out := map[string]interface{}{}
	for k, f := range s.Go {
		out["go:"+k] = describeFact(f)
	}
	for k, j := range s.JSON {
		out["json:"+k] = j
	}
	for k, v := range s.Top {
		out["top:"+k] = fmt.Sprintf("%T(%v)", v, v)
	}
	return out
}

func describeFact(f *Fact) map[string]interface{} {
	m := map[string]interface{}{}
	rv := reflect.ValueOf(f).Elem()
	for i := 0; i < rv.NumField(); i++ {
		sf := rv.Type().Field(i)
		if sf.PkgPath != "" {
			continue
		}
		fv := rv.Field(i)
		if fv.IsZero() {
			continue
		}
		switch fv.Kind() {
		case reflect.Ptr:
			m[sf.Name] = fmt.Sprintf("&%+v", fv.Elem().Interface())
		case reflect.Slice:
			if fv.Type().Elem().Kind() == reflect.Ptr {
				var xs []string
				for j := 0; j < fv.Len(); j++ {
					if fv.Index(j).IsNil() {
						xs = append(xs, "nil")
					} else {
						xs = append(xs, fmt.Sprintf("&%+v", fv.Index(j).Elem().Interface()))
					}
				}
				m[sf.Name] = xs
			} else {
				m[sf.Name] = fmt.Sprintf("%v", fv.Interface())
			}
		case reflect.Map:
			m[sf.Name] = fmt.Sprintf("%+v", derefMap(fv))
		case reflect.Interface:
			if fv.Elem().Kind() == reflect.Ptr && !fv.Elem().IsNil() {
				m[sf.Name] = fmt.Sprintf("&%+v", fv.Elem().Elem().Interface())
			} else {
				m[sf.Name] = fmt.Sprintf("%+v", fv.Interface())
			}
		default:
			if sf.Type == timeType {
				m[sf.Name] = fv.Interface().(time.Time).Format(time.RFC3339Nano)
			} else {
				m[sf.Name] = fv.Interface()
			}
		}
	}
	return m
}

func derefMap(fv reflect.Value) map[string]interface{} {
	o := map[string]interface{}{}
	it := fv.MapRange()
	for it.Next() {
		v := it.Value()
		if v.Kind() == reflect.Ptr && !v.IsNil() {
			o[fmt.Sprint(it.Key().Interface())] = fmt.Sprintf("&%+v", v.Elem().Interface())
		} else {
			o[fmt.Sprint(it.Key().Interface())] = v.Interface()
		}
	}
	return o
}

// DiffTrees compares two untyped trees (JSON members, sink values) numerically.
func DiffTrees(path string, want, got interface{}) []string {
	var out []string
	diffTree(path, want, got, &out)
	return out
}
