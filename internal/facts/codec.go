package facts

import (
	"encoding/json"
	"fmt"
	"strconv"
	"time"
)

// factDTO mirrors Fact for (de)serialisation in replay files; Any is always *Sub in this universe.
type factDTO struct {
	I8    int8
	I16   int16
	I32   int32
	I64   int64
	Base  Base
	I     int
	U8    uint8
	U16   uint16
	U32   uint32
	U64   uint64
	U     uint
	F32   float32
	F64   float64
	S     string
	S2    string
	B     bool
	B2    bool
	T     time.Time
	T2    time.Time
	TLoc  string
	T2Loc string
	PI    *int64
	PF    *float64
	Sub   *Sub
	Val   Sub
	Any   *Sub
	Arr   []int64
	Arr32 []int32
	AU8   []int // avoid base64 of []uint8
	FArr  []float64
	SArr  []string
	BArr  []bool
	RO    []int64
	ROM   map[string]int64
	NB    bool
	Subs  []*Sub
	M     map[string]int64
	MF    map[string]float64
	MS    map[string]string
	MB    map[string]bool
	MI    map[int64]string
	MSub  map[string]*Sub
	Log   string
	H     int64
}

// MarshalJSON implements json.Marshaler.
func (f *Fact) MarshalJSON() ([]byte, error) {
	d := factDTO{Base: f.Base, I8: f.I8, I16: f.I16, I32: f.I32, I64: f.I64, I: f.I, U8: f.U8, U16: f.U16, U32: f.U32, U64: f.U64, U: f.U,
		F32: f.F32, F64: f.F64, S: f.S, S2: f.S2, B: f.B, B2: f.B2, T: f.T, T2: f.T2, PI: f.PI, PF: f.PF, Sub: f.Sub, Val: f.Val,
		Arr: f.Arr, Arr32: f.Arr32, FArr: f.FArr, SArr: f.SArr, BArr: f.BArr, RO: f.RO, ROM: f.ROM, NB: bool(f.NB), Subs: f.Subs,
		M: f.M, MF: f.MF, MS: f.MS, MB: f.MB, MI: f.MI, MSub: f.MSub, Log: f.Log, H: f.H}
	d.TLoc = f.T.Location().String()
	d.T2Loc = f.T2.Location().String()
	if f.AU8 != nil {
		d.AU8 = make([]int, len(f.AU8))
		for i, v := range f.AU8 {
			d.AU8[i] = int(v)
		}
	}
	if s, ok := f.Any.(*Sub); ok {
		d.Any = s
	}
	return json.Marshal(d)
}

// UnmarshalJSON implements json.Unmarshaler.
func (f *Fact) UnmarshalJSON(b []byte) error {
	var d factDTO
	if err := json.Unmarshal(b, &d); err != nil {
		return err
	}
	*f = Fact{Base: d.Base, I8: d.I8, I16: d.I16, I32: d.I32, I64: d.I64, I: d.I, U8: d.U8, U16: d.U16, U32: d.U32, U64: d.U64, U: d.U,
		F32: d.F32, F64: d.F64, S: d.S, S2: d.S2, B: d.B, B2: d.B2, T: d.T, T2: d.T2, PI: d.PI, PF: d.PF, Sub: d.Sub, Val: d.Val,
		Arr: d.Arr, Arr32: d.Arr32, FArr: d.FArr, SArr: d.SArr, BArr: d.BArr, RO: d.RO, ROM: d.ROM, NB: Switch(d.NB), Subs: d.Subs,
		M: d.M, MF: d.MF, MS: d.MS, MB: d.MB, MI: d.MI, MSub: d.MSub, Log: d.Log, H: d.H}
	if d.AU8 != nil {
		f.AU8 = make([]uint8, len(d.AU8))
		for i, v := range d.AU8 {
			f.AU8[i] = uint8(v)
		}
	}
	if d.Any != nil {
		f.Any = d.Any
	}
	f.SetWrapped()
	f.T = relocate(f.T, d.TLoc)
	f.T2 = relocate(f.T2, d.T2Loc)
	return nil
}

func relocate(t time.Time, loc string) time.Time {
	if loc == "" || loc == "UTC" {
		return t.UTC()
	}
	if l := LocByName(loc); l != nil {
		return t.In(l)
	}
	return t
}

// Fixed zones used by the generators (no tzdata dependency).
var (
	ZoneEast = time.FixedZone("E7", 7*3600)
	ZoneWest = time.FixedZone("W5", -5*3600)
)

// LocByName resolves the fixed zones of this universe.
func LocByName(n string) *time.Location {
	switch n {
	case "UTC":
		return time.UTC
	case "E7":
		return ZoneEast
	case "W5":
		return ZoneWest
	}
	return nil
}

// EncodeTree converts a tree with typed scalars into a JSON-marshalable tree with type tags.
func EncodeTree(v interface{}) interface{} {
	switch x := v.(type) {
	case map[string]interface{}:
		o := map[string]interface{}{}
		for k, e := range x {
			o[k] = EncodeTree(e)
		}
		return o
	case []interface{}:
		o := make([]interface{}, len(x))
		for i, e := range x {
			o[i] = EncodeTree(e)
		}
		return o
	case int64:
		return map[string]interface{}{"$i": strconv.FormatInt(x, 10)}
	case uint64:
		return map[string]interface{}{"$u": strconv.FormatUint(x, 10)}
	case time.Time:
		return map[string]interface{}{"$t": x.Format(time.RFC3339Nano), "$loc": x.Location().String()}
	case float64:
		return map[string]interface{}{"$f": strconv.FormatFloat(x, 'g', -1, 64)}
	case nil, string, bool:
		return x
	default:
		return map[string]interface{}{"$other": fmt.Sprintf("%T(%v)", v, v)}
	}
}

// DecodeTree is the inverse of EncodeTree (after a JSON round trip).
func DecodeTree(v interface{}) interface{} {
	switch x := v.(type) {
	case map[string]interface{}:
		if s, ok := x["$i"].(string); ok {
			i, _ := strconv.ParseInt(s, 10, 64)
			return i
		}
		if s, ok := x["$u"].(string); ok {
			i, _ := strconv.ParseUint(s, 10, 64)
			return i
		}
		if s, ok := x["$f"].(string); ok {
			f, _ := strconv.ParseFloat(s, 64)
			return f
		}
		if s, ok := x["$t"].(string); ok {
			t, _ := time.Parse(time.RFC3339Nano, s)
			loc, _ := x["$loc"].(string)
			return relocate(t, loc)
		}
		o := map[string]interface{}{}
		for k, e := range x {
			o[k] = DecodeTree(e)
		}
		return o
	case []interface{}:
		o := make([]interface{}, len(x))
		for i, e := range x {
			o[i] = DecodeTree(e)
		}
		return o
	default:
		return v
	}
}

// stateDTO is the on-disk form of a State.
type stateDTO struct {
	Go   map[string]*Fact       `json:"go,omitempty"`
	JSON map[string]interface{} `json:"json,omitempty"`
	Top  map[string]interface{} `json:"top,omitempty"`
}

// MarshalJSON implements json.Marshaler.
func (s *State) MarshalJSON() ([]byte, error) {
	d := stateDTO{Go: s.Go, JSON: map[string]interface{}{}, Top: map[string]interface{}{}}
	for k, v := range s.JSON {
		d.JSON[k] = EncodeTree(v)
	}
	for k, v := range s.Top {
		d.Top[k] = EncodeTree(v)
	}
	return json.Marshal(d)
}

// UnmarshalJSON implements json.Unmarshaler.
func (s *State) UnmarshalJSON(b []byte) error {
	var d stateDTO
	if err := json.Unmarshal(b, &d); err != nil {
		return err
	}
	s.Go = d.Go
	if s.Go == nil {
		s.Go = map[string]*Fact{}
	}
	s.JSON = map[string]interface{}{}
	s.Top = map[string]interface{}{}
	for k, v := range d.JSON {
		s.JSON[k] = DecodeTree(v)
	}
	for k, v := range d.Top {
		s.Top[k] = DecodeTree(v)
	}
	return nil
}
