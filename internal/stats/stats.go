// Package stats collects per-property coverage counters inside the test process and writes
// them to the shard file named by VERIF_STATS_OUT; the driver merges shards into the evidence
// file. It also writes replay files for failing cases and knows the committed list of findings.
package stats

import (
	"encoding/json"
	"fmt"
	"hash/fnv"
	"os"
	"path/filepath"
	"sort"
	"strconv"
	"strings"
	"sync"
)

// Shard is the on-disk form of one process's counters.
type Shard struct {
	Property    string                 `json:"property"`
	Tier        string                 `json:"tier"`
	Seed        int64                  `json:"seed"`
	Shard       int                    `json:"shard"`
	Evaluations int                    `json:"evaluations"`
	NonTrivial  int                    `json:"nontrivial"`
	Distinct    []string               `json:"distinct"` // hex hashes of distinct non-trivial cases
	Labels      map[string]int         `json:"labels"`
	Samples     []interface{}          `json:"samples"`
	Violations  []Violation            `json:"violations"`
	Known       []string               `json:"known"`
	Extra       map[string]interface{} `json:"extra"`
	Rule        string                 `json:"rule"`
	Assumptions []string               `json:"assumptions"`
	Exhaustive  *bool                  `json:"exhaustive,omitempty"`
	Completed   bool                   `json:"completed"`
}

// Violation is one reported failure.
type Violation struct {
	Signature string `json:"signature"`
	Replay    string `json:"replay"`
	Message   string `json:"message"`
}

// Collector accumulates counters for one property.
type Collector struct {
	mu       sync.Mutex
	sh       Shard
	distinct map[uint64]struct{}
	maxSamp  int
	ntSamp   int
}

// Env accessors ------------------------------------------------------------------------------

// Tier returns "quick" or "thorough".
func Tier() string {
	t := os.Getenv("VERIF_TIER")
	if t != "thorough" {
		return "quick"
	}
	return t
}

// Thorough reports whether the thorough tier is running.
func Thorough() bool { return Tier() == "thorough" }

// Seed returns VERIF_SEED (default 1).
func Seed() int64 {
	s, err := strconv.ParseInt(os.Getenv("VERIF_SEED"), 10, 64)
	if err != nil {
		return 1
	}
	return s
}

// ShardIndex returns (index, count) of this process among its siblings.
func ShardIndex() (int, int) {
	i, _ := strconv.Atoi(os.Getenv("VERIF_SHARD"))
	n, _ := strconv.Atoi(os.Getenv("VERIF_NSHARDS"))
	if n <= 0 {
		n = 1
	}
	return i, n
}

// VerifDir returns the /verif directory.
func VerifDir() string {
	if d := os.Getenv("VERIF_DIR"); d != "" {
		return d
	}
	return "/verif"
}

// New creates a collector.
func New(property, rule string, assumptions ...string) *Collector {
	i, _ := ShardIndex()
	return &Collector{
		sh: Shard{Property: property, Tier: Tier(), Seed: Seed(), Shard: i, Labels: map[string]int{},
			Extra: map[string]interface{}{}, Rule: rule, Assumptions: assumptions},
		distinct: map[uint64]struct{}{},
		maxSamp:  5,
	}
}

func hash(s string) uint64 {
	h := fnv.New64a()
	h.Write([]byte(s))
	return h.Sum64()
}

// Case records one generated case. key identifies the case for distinctness (typically its
// printed form); nontrivial is the property's stated predicate.
func (c *Collector) Case(key string, nontrivial bool, labels ...string) {
	c.mu.Lock()
	defer c.mu.Unlock()
	c.sh.Evaluations++
	if nontrivial {
		c.sh.NonTrivial++
		c.distinct[hash(key)] = struct{}{}
	}
	for _, l := range labels {
		if l != "" {
			c.sh.Labels[l]++
		}
	}
}

// Label bumps a counter without counting a case.
func (c *Collector) Label(l string, n int) {
	c.mu.Lock()
	defer c.mu.Unlock()
	c.sh.Labels[l] += n
}

// WantSample reports whether another sample would be kept.
func (c *Collector) WantSample(nontrivial bool) bool {
	c.mu.Lock()
	defer c.mu.Unlock()
	if len(c.sh.Samples) < c.maxSamp {
		return true
	}
	return nontrivial && c.ntSamp < c.maxSamp
}

// Sample keeps an example case (up to five, non-trivial ones replace trivial ones).
func (c *Collector) Sample(v interface{}, nontrivial bool) {
	c.mu.Lock()
	defer c.mu.Unlock()
	if len(c.sh.Samples) < c.maxSamp {
		c.sh.Samples = append(c.sh.Samples, v)
		if nontrivial {
			c.ntSamp++
		}
		return
	}
	if nontrivial && c.ntSamp < c.maxSamp {
		c.sh.Samples[c.ntSamp] = v
		c.ntSamp++
	}
}

// Extra sets an additional coverage key.
func (c *Collector) Extra(k string, v interface{}) {
	c.mu.Lock()
	defer c.mu.Unlock()
	c.sh.Extra[k] = v
}

// AddExtra adds to a numeric extra key.
func (c *Collector) AddExtra(k string, n int) {
	c.mu.Lock()
	defer c.mu.Unlock()
	cur, _ := c.sh.Extra[k].(int)
	c.sh.Extra[k] = cur + n
}

// SetExhaustive marks the run as having enumerated its space completely.
func (c *Collector) SetExhaustive(b bool) {
	c.mu.Lock()
	defer c.mu.Unlock()
	c.sh.Exhaustive = &b
}

// Known records that a listed finding was reproduced and prints the interface line.
func (c *Collector) Known(property, id, text string) {
	c.mu.Lock()
	defer c.mu.Unlock()
	line := fmt.Sprintf("KNOWN-FINDING: property=%s id=%s %s", property, id, text)
	for _, k := range c.sh.Known {
		if k == line {
			return
		}
	}
	c.sh.Known = append(c.sh.Known, line)
}

// ReplayDir returns the directory for replay files of a property.
func ReplayDir(property string) string {
	d := os.Getenv("VERIF_REPLAY_DIR")
	if d == "" {
		d = filepath.Join(VerifDir(), "replays")
	}
	d = filepath.Join(d, property)
	_ = os.MkdirAll(d, 0o755)
	return d
}

// Violation writes a replay file (overwriting the previous one of this process and signature
// class, so that after shrinking the file holds the minimal case) and records the failure.
func (c *Collector) Violation(property, signature, message string, replay interface{}) string {
	c.mu.Lock()
	defer c.mu.Unlock()
	i, _ := ShardIndex()
	name := fmt.Sprintf("%s-%s-seed%d-shard%d.json", property, Tier(), Seed(), i)
	path := filepath.Join(ReplayDir(property), name)
	doc := map[string]interface{}{"property": property, "signature": signature, "message": message, "case": replay}
	b, err := json.MarshalIndent(doc, "", " ")
	if err != nil {
		b, _ = json.Marshal(map[string]interface{}{"property": property, "signature": signature, "message": message, "marshal_error": err.Error()})
	}
	_ = os.WriteFile(path, b, 0o644)
	// keep one entry per process: the latest (smallest) failing case
	v := Violation{Signature: signature, Replay: path, Message: message}
	if len(c.sh.Violations) > 0 {
		c.sh.Violations[len(c.sh.Violations)-1] = v
	} else {
		c.sh.Violations = append(c.sh.Violations, v)
	}
	c.flushLocked(false)
	return path
}

// Flush writes the shard file.
func (c *Collector) Flush() {
	c.mu.Lock()
	defer c.mu.Unlock()
	c.flushLocked(true)
}

func (c *Collector) flushLocked(completed bool) {
	out := os.Getenv("VERIF_STATS_OUT")
	if out == "" {
		return
	}
	c.sh.Completed = completed
	c.sh.Distinct = c.sh.Distinct[:0]
	for h := range c.distinct {
		c.sh.Distinct = append(c.sh.Distinct, strconv.FormatUint(h, 16))
	}
	sort.Strings(c.sh.Distinct)
	b, err := json.Marshal(&c.sh)
	if err != nil {
		// samples may contain unmarshalable values; drop them rather than lose the counters
		c.sh.Samples = []interface{}{fmt.Sprintf("unmarshalable samples: %v", err)}
		b, _ = json.Marshal(&c.sh)
	}
	tmp := out + ".tmp"
	if err := os.WriteFile(tmp, b, 0o644); err == nil {
		_ = os.Rename(tmp, out)
	}
}

// ---------------------------------------------------------------------------------------------
// known findings

// Finding is a line of KNOWN_FINDINGS.txt.
type Finding struct {
	Open     bool
	Property string
	ID       string
	Text     string
}

var (
	knownOnce sync.Once
	knownList []Finding
)

// Findings parses the committed KNOWN_FINDINGS.txt (never written at run time).
func Findings() []Finding {
	knownOnce.Do(func() {
		b, err := os.ReadFile(filepath.Join(VerifDir(), "KNOWN_FINDINGS.txt"))
		if err != nil {
			return
		}
		for _, ln := range strings.Split(string(b), "\n") {
			ln = strings.TrimSpace(ln)
			if ln == "" || strings.HasPrefix(ln, "#") {
				continue
			}
			f := Finding{}
			switch {
			case strings.HasPrefix(ln, "open:"):
				f.Open = true
				ln = strings.TrimSpace(strings.TrimPrefix(ln, "open:"))
			case strings.HasPrefix(ln, "fixed:"):
				ln = strings.TrimSpace(strings.TrimPrefix(ln, "fixed:"))
			default:
				continue
			}
			for _, tok := range strings.Fields(ln) {
				if strings.HasPrefix(tok, "property=") {
					f.Property = strings.TrimPrefix(tok, "property=")
				}
				if strings.HasPrefix(tok, "id=") {
					f.ID = strings.TrimPrefix(tok, "id=")
				}
			}
			if i := strings.Index(ln, "::"); i >= 0 {
				f.Text = strings.TrimSpace(ln[i+2:])
			}
			knownList = append(knownList, f)
		}
	})
	return knownList
}

// IsOpen reports whether the finding id is listed as open for the property.
func IsOpen(property, id string) bool {
	for _, f := range Findings() {
		if f.Open && f.ID == id && (f.Property == property || strings.Contains(f.Property, property)) {
			return true
		}
	}
	return false
}
