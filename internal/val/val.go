// Package val runs a generated rule set on the real engine and validates the observed trace
// step by step: fresh-engine truth of every evaluation, conflict resolution, the effect of every
// firing against the reference interpreter, retract/complete bookkeeping, termination and the
// listener protocol. Each clause is attributed to the property it belongs to; a property's check
// looks only at its own clauses.
package val

import (
	"bytes"
	"context"
	"errors"
	"fmt"
	"sort"
	"strings"

	"github.com/hyperjumptech/grule-rule-engine/ast"
	"github.com/hyperjumptech/grule-rule-engine/engine"

	"verif/internal/facts"
	"verif/internal/gast"
	"verif/internal/obs"
	"verif/internal/ref"
)

// Case is one run to validate.
type Case struct {
	Rules     []*gast.Rule
	Text      string            // the text handed to the builder (all rules)
	Texts     []string          // when non-empty: the rule set is built from these resources, one after the other
	SoloTexts map[string]string // rule name -> text of that rule alone (canonical)
	Init      *facts.State
	MaxCycle  uint64
	ErrOnFail bool
	ViaGRB    bool // take the instance from a stored-and-loaded knowledge base
	Listeners int  // number of recording listeners (>= 1)

	// Fault injection (C14) and cancellation (C15)
	ProbeFailAt int
	ProbeMode   facts.FailMode
	UseContext  bool

	// TruthAll also evaluates every rule from scratch at each BeginCycle (needed to know whether
	// a retracted rule would have been satisfied later).
	TruthAll bool

	// OnEvent, when set, is called synchronously after each non-probe event (index counts those).
	OnEvent func(index int, ev *obs.Event)

	// RefFailures also asks the reference interpreter at every evaluation event whether the condition
	// fails to evaluate (a fresh engine shares the evaluator and would hide a swallowed failure).
	RefFailures bool

	// ReuseLive / ReuseDC, when set, make the call run on an existing data context (and its live fact
	// objects) instead of a new one built from Init.
	ReuseLive *facts.State
	ReuseDC   ast.IDataContext

	// PriorInit, when set, makes every new instance of this case perform one earlier Execute (on these
	// facts, with PriorMaxCycle, not validated) before the validated call: the properties hold for every
	// execution, also one on an instance that was used before and whose earlier run ended abnormally.
	PriorInit     *facts.State
	PriorMaxCycle uint64
	// PriorSameDC makes the earlier call run on the very data context (and fact objects) of the validated
	// call, built from Init: the validated call then starts from whatever the earlier call left behind.
	PriorSameDC bool
	// PriorOtherInstance makes that earlier call on the same data context run on another instance of the
	// knowledge base (PriorKB, or a new one): a data context is not tied to the instance it was first used with.
	PriorOtherInstance bool
	PriorKB            *ast.KnowledgeBase

	// Rejected lists resources that are offered to the knowledge base after its first resource and must be
	// rejected by the builder (syntax error, duplicate rule name, invalid literal somewhere in them): a
	// rejected resource leaves the knowledge base as it was, so everything the properties say goes on holding.
	Rejected []string
	// Batch hands the resources to the builder's batch entry point (BuildRuleFromResources): the first
	// resource together with the ones to be rejected in one call (which must return an error and keep the
	// first resource's rules), the remaining resources in a second call.
	Batch bool
	// NestedAt > 0: at that probe invocation (in a condition or an action) the fact method runs another small
	// knowledge base to its end on the same engine value before the outer run goes on.
	// NestedAt < 0: at every probe invocation from the (-NestedAt)-th on.
	NestedAt int
	// RemovedText / RemovedName / RemovedVia: a further rule (made of the rule set's own material) is built into
	// the knowledge base and removed again before anything runs - through the library ("library") or from the
	// instance right after it was created ("instance"). The rules that stay behave as if it had never been there.
	RemovedText string
	RemovedName string
	RemovedVia  string
	// RefTruth names rules whose condition is decided by the reference interpreter instead of the fresh engine
	// (conditions of a shape for which the meaning is beyond doubt and the engine's own final boolean check is
	// part of what is under test)
	RefTruth map[string]bool
}

// ApplyRemoved performs the instance-level removal of the case on an instance the caller created itself.
func ApplyRemoved(c *Case, kb *ast.KnowledgeBase) {
	if c.RemovedName != "" && c.RemovedVia == "instance" && kb != nil {
		kb.RemoveRuleEntry(c.RemovedName)
	}
}

// Violation is a broken clause.
type Violation struct {
	Prop string
	Msg  string
}

// Report is the outcome of a validated run.
type Report struct {
	V                  []Violation
	Excluded           string // non-empty: the run left the property's quantifier (reason)
	Harness            string // non-empty: the harness itself failed (build of a valid text etc.)
	Events             []obs.Event
	Err                error
	Panicked           interface{}
	Final              *facts.State
	Cycles             int // completed evaluation phases
	Firings            int
	Fired              []string
	FlipsTF            int // rule truth true->false between consecutive evaluations
	FlipsFT            int // rule truth false->true
	MultiCand          int // cycles with >= 2 true rules of different salience
	TieCycles          int // cycles with >= 2 true rules of maximal salience
	NegSal             int // cycles whose conflict set has a negative salience
	Retracted          map[string]bool
	Completed          bool
	RetractedTrueLater bool // a retracted rule was true (fresh) at a later cycle
	CompleteNotLast    bool // Complete() was followed by further actions in its rule
	ProbeCalls         []facts.ProbeCall
	ProbePhases        [][]facts.ProbeCall // probe invocations per evaluation phase
	EndedBy            string              // "quiescence", "complete", "cyclelimit", "error", "panic"
	FaultSeen          bool                // the injected probe fault was reached
	FaultIn            string              // "condition" or "action"
	FaultRule          string              // rule being evaluated / executed when the fault hit
	FaultEventIndex    int
	Live               *facts.State     // the live fact objects of this call (for chaining calls on one data context)
	DC                 ast.IDataContext // the data context of this call
	FaultPre           *facts.State
	FaultPost          *facts.State
	FaultCycle         uint64
	NotesAB            int   // disagreements between reference truth (A) and fresh-engine truth (B)
	PriorErr           error // result of the earlier call on the same instance (Case.PriorInit)
}

func (r *Report) add(prop, f string, a ...interface{}) {
	r.V = append(r.V, Violation{Prop: prop, Msg: fmt.Sprintf(f, a...)})
}

// Of returns the violations attributed to a property.
func (r *Report) Of(prop string) []string {
	var out []string
	for _, v := range r.V {
		if v.Prop == prop {
			out = append(out, v.Msg)
		}
	}
	return out
}

// Prepared holds what can be shared between runs of the same rule set.
type Prepared struct {
	Lib    *ast.KnowledgeLibrary
	GRBLib *ast.KnowledgeLibrary
	Solo   *obs.Solo
	ByName map[string]*gast.Rule
}

// Prepare builds the rule set (together and every rule alone).
func Prepare(c *Case) (*Prepared, error) {
	var lib *ast.KnowledgeLibrary
	var err error
	offerRejected := func() error {
		for i, t := range c.Rejected {
			berr, pan := obs.BuildInto(lib, obs.KBName, obs.KBVersion, t)
			if pan != nil {
				return fmt.Errorf("building the resource that is to be rejected (%d) panicked: %v", i, pan)
			}
			if berr == nil {
				return fmt.Errorf("harness: resource %d that was generated to be rejected was accepted:\n%s", i, t)
			}
		}
		return nil
	}
	if c.Batch {
		lib = ast.NewKnowledgeLibrary()
		texts := c.Texts
		if len(texts) == 0 {
			texts = []string{c.Text}
		}
		first := append([]string{texts[0]}, c.Rejected...)
		berr, pan := obs.BuildBatch(lib, obs.KBName, obs.KBVersion, first)
		if pan != nil {
			return nil, fmt.Errorf("BuildRuleFromResources panicked: %v", pan)
		}
		if len(c.Rejected) > 0 && berr == nil {
			return nil, fmt.Errorf("harness: a batch with a resource that was generated to be rejected was accepted")
		}
		if len(c.Rejected) == 0 && berr != nil {
			return nil, fmt.Errorf("building the first resource through the batch entry point: %v", berr)
		}
		if len(texts) > 1 {
			if berr, _ := obs.BuildBatch(lib, obs.KBName, obs.KBVersion, texts[1:]); berr != nil {
				return nil, fmt.Errorf("building the remaining resources through the batch entry point: %v", berr)
			}
		}
	} else if len(c.Texts) > 0 {
		lib = ast.NewKnowledgeLibrary()
		for i, t := range c.Texts {
			if berr, _ := obs.BuildInto(lib, obs.KBName, obs.KBVersion, t); berr != nil {
				return nil, fmt.Errorf("building resource %d of the rule set: %v", i, berr)
			}
			if i == 0 {
				if rerr := offerRejected(); rerr != nil {
					return nil, rerr
				}
			}
		}
	} else {
		lib, err = obs.Build(c.Text)
		if err != nil {
			return nil, fmt.Errorf("building the rule set: %v", err)
		}
		if rerr := offerRejected(); rerr != nil {
			return nil, rerr
		}
	}
	if c.RemovedName != "" {
		if berr, _ := obs.BuildInto(lib, obs.KBName, obs.KBVersion, c.RemovedText); berr != nil {
			return nil, fmt.Errorf("building the rule that is to be removed again: %v", berr)
		}
		if c.RemovedVia == "library" {
			lib.RemoveRuleEntry(c.RemovedName, obs.KBName, obs.KBVersion)
		}
	}
	p := &Prepared{Lib: lib, ByName: map[string]*gast.Rule{}}
	for _, r := range c.Rules {
		p.ByName[r.Name] = r
	}
	solo, err := obs.NewSolo(c.SoloTexts)
	if err != nil {
		return nil, err
	}
	p.Solo = solo
	if c.ViaGRB {
		var buf bytes.Buffer
		if err := lib.StoreKnowledgeBaseToWriter(&buf, obs.KBName, obs.KBVersion); err != nil {
			return nil, fmt.Errorf("store: %v", err)
		}
		l2 := ast.NewKnowledgeLibrary()
		if _, err := l2.LoadKnowledgeBaseFromReader(bytes.NewReader(buf.Bytes()), true); err != nil {
			return nil, fmt.Errorf("load: %v", err)
		}
		p.GRBLib = l2
	}
	return p, nil
}

// IsCycleLimitErr recognises the engine's cycle-limit error structurally: it is not a context
// error and names no rule as failing.
func IsCycleLimitErr(err error) bool {
	if err == nil {
		return false
	}
	if errors.Is(err, context.Canceled) || errors.Is(err, context.DeadlineExceeded) {
		return false
	}
	s := err.Error()
	if strings.Contains(s, "error while executing rule") || strings.Contains(s, "evaluating") {
		return false
	}
	return strings.Contains(s, "cycle")
}

type cycleRec struct {
	begin  *obs.Event
	n      uint64
	evals  []obs.Event
	exec   *obs.Event
	probes []facts.ProbeCall
}

// Run executes the case on a new instance and validates the trace.
func Run(c *Case, p *Prepared) *Report { return RunOn(c, p, nil) }

// RunOn executes the case on the given instance (nil = a new one) and validates the trace
// against a fresh model (nothing retracted, nothing remembered, not complete).
func RunOn(c *Case, p *Prepared, kb *ast.KnowledgeBase) *Report {
	rep := &Report{Retracted: map[string]bool{}}
	priorSame := false
	lib := p.Lib
	if c.ViaGRB && p.GRBLib != nil {
		lib = p.GRBLib
	}
	if kb == nil {
		var err error
		kb, err = obs.Instance(lib)
		if err != nil {
			rep.add("C09", "NewKnowledgeBaseInstance failed for a successfully built knowledge base: %v", err)
			rep.Harness = "instance: " + err.Error()
			return rep
		}
		ApplyRemoved(c, kb)
		if c.PriorInit != nil && !c.PriorSameDC {
			pl := c.PriorInit.Copy()
			for _, f := range pl.Go {
				if f != nil {
					f.SetProbe(&facts.Probe{})
				}
			}
			if pdc, perr := obs.NewDataContext(pl); perr == nil {
				pres := obs.Execute(kb, pdc, obs.RunOpts{MaxCycle: c.PriorMaxCycle})
				rep.PriorErr = pres.Err
			}
		}
		if c.PriorSameDC && c.ReuseDC == nil {
			priorSame = true
		}
	} else if c.PriorSameDC && c.PriorOtherInstance && c.PriorKB != nil && c.ReuseDC == nil {
		// the caller supplies both instances: the one for the earlier call and the one to validate
		priorSame = true
	}
	var live *facts.State
	var dc ast.IDataContext
	probe := &facts.Probe{FailAt: c.ProbeFailAt, Mode: c.ProbeMode}
	if c.ReuseDC != nil && c.ReuseLive != nil {
		live, dc = c.ReuseLive, c.ReuseDC
	} else {
		live = c.Init.Copy()
	}
	for _, f := range live.Go {
		if f != nil {
			f.SetProbe(probe)
		}
	}
	if dc == nil {
		var err error
		dc, err = obs.NewDataContext(live)
		if err != nil {
			rep.Harness = "data context: " + err.Error()
			return rep
		}
	}
	rep.Live, rep.DC = live, dc
	if priorSame {
		// the earlier call on the same data context (neutral probes)
		probe.Oracle = true
		pkb := kb
		if c.PriorOtherInstance {
			pkb = c.PriorKB
			if pkb == nil {
				if other, oerr := obs.Instance(lib); oerr == nil {
					ApplyRemoved(c, other)
					pkb = other
				} else {
					pkb = kb
				}
			}
		}
		pres := obs.Execute(pkb, dc, obs.RunOpts{MaxCycle: c.PriorMaxCycle})
		probe.Oracle = false
		rep.PriorErr = pres.Err
		if dc.IsComplete() {
			// a completed data context stays complete for good: the validated call gets a new one
			live = c.Init.Copy()
			for _, f := range live.Go {
				if f != nil {
					f.SetProbe(probe)
				}
			}
			ndc, nerr := obs.NewDataContext(live)
			if nerr != nil {
				rep.Harness = "data context: " + nerr.Error()
				return rep
			}
			dc = ndc
			rep.Live, rep.DC = live, dc
		}
	}
	nl := c.Listeners
	if nl < 1 {
		nl = 1
	}
	recs := make([]*obs.Recorder, nl)
	listeners := make([]engine.GruleEngineListener, nl)
	for i := range recs {
		recs[i] = &obs.Recorder{}
		listeners[i] = recs[i]
	}
	main := recs[0]
	var theEngine *engine.GruleEngine
	nestedDone := false
	probe.OnCall = func(name string, id int64, n int) {
		if theEngine != nil && ((c.NestedAt > 0 && n == c.NestedAt && !nestedDone) || (c.NestedAt < 0 && n >= -c.NestedAt)) {
			nestedDone = true
			for _, r := range recs {
				r.Mute = true
			}
			nestedRun(theEngine)
			for _, r := range recs {
				r.Mute = false
			}
		}
		main.Probe(name, id, n)
	}
	nonProbe := 0
	evaluatedNow := map[string]bool{}
	main.Hook = func(ev *obs.Event) {
		if ev.Kind != obs.EvProbe && c.OnEvent != nil {
			defer func() {
				nonProbe++
				c.OnEvent(nonProbe, ev)
			}()
		}
		switch ev.Kind {
		case obs.EvBegin:
			evaluatedNow = map[string]bool{}
			ev.State = obs.Capture(live, dc)
			if c.TruthAll {
				ev.TruthAll = map[string]bool{}
				for _, r := range c.Rules {
					tr, terr := p.Solo.Truth(r.Name, live, dc)
					ev.TruthAll[r.Name] = tr && terr == nil
				}
			}
		case obs.EvEval:
			evaluatedNow[ev.Rule] = true
			tr, terr := p.Solo.Truth(ev.Rule, live, dc)
			ev.Truth, ev.TruthErr, ev.HasTruth = tr, terr, true
			if c.RefTruth[ev.Rule] {
				if rule, ok := p.ByName[ev.Rule]; ok {
					if rv, rerr := ref.New(obs.Capture(live, dc)).Eval(rule.When); rerr == nil && rv.K == ref.KBool {
						ev.Truth, ev.TruthErr = rv.B, nil
					}
				}
			}
			if c.RefFailures && terr == nil {
				if rule, ok := p.ByName[ev.Rule]; ok {
					if _, rerr := ref.New(obs.Capture(live, dc)).Eval(rule.When); rerr != nil && !ref.IsUndefined(rerr) {
						ev.TruthErr = fmt.Errorf("the reference interpreter fails to evaluate the condition (%v) although a fresh engine reports no failure", rerr)
						ev.Truth = false
					}
				}
			}
		case obs.EvExec:
			ev.State = obs.Capture(live, dc)
			tr, terr := p.Solo.Truth(ev.Rule, live, dc)
			ev.Truth, ev.TruthErr, ev.HasTruth = tr, terr, true
			// rules the engine did not evaluate in this cycle: their fresh truth at the moment of the
			// firing (the facts have not changed since the evaluation phase)
			for _, r := range c.Rules {
				if !evaluatedNow[r.Name] {
					if ev.TruthAll == nil {
						ev.TruthAll = map[string]bool{}
					}
					tr, terr := p.Solo.Truth(r.Name, live, dc)
					ev.TruthAll[r.Name] = tr && terr == nil
				}
			}
		}
	}
	opts := obs.RunOpts{MaxCycle: c.MaxCycle, ErrOnFail: c.ErrOnFail, Listeners: listeners, OnEngine: func(e *engine.GruleEngine) { theEngine = e }}
	if c.UseContext {
		opts.Ctx = context.Background()
	}
	if c.ProbeMode == facts.FailCancel && c.ProbeFailAt > 0 {
		ctx, cancel := context.WithCancel(context.Background())
		defer cancel()
		opts.Ctx = ctx
		probe.Cancel = cancel
	}
	res := obs.Execute(kb, dc, opts)
	rep.Err, rep.Panicked = res.Err, res.Panicked
	rep.Events = main.Events
	rep.Final = obs.Capture(live, dc)
	rep.ProbeCalls = probe.Calls
	if res.Panicked != nil {
		rep.add("C14", "a panic escaped Execute: %v", res.Panicked)
		rep.EndedBy = "panic"
	}
	// all listeners see the same sequence (C06)
	for i := 1; i < nl; i++ {
		a := filterNonProbe(main.Events)
		b := recs[i].Events
		if len(a) != len(b) {
			rep.add("C06", "listener %d saw %d events, listener 0 saw %d", i, len(b), len(a))
			continue
		}
		for j := range a {
			if a[j].Kind != b[j].Kind || a[j].Cycle != b[j].Cycle || a[j].Rule != b[j].Rule || a[j].Cand != b[j].Cand {
				rep.add("C06", "listener %d event %d is %s, listener 0 saw %s", i, j, b[j], a[j])
				break
			}
		}
	}
	validate(c, p, rep)
	return rep
}

var innerLib *ast.KnowledgeLibrary

// nestedRun executes a small knowledge base of its own (three rules of different salience, several cycles) to
// quiescence on the given engine value, the way a fact method may do.
func nestedRun(eng *engine.GruleEngine) {
	if innerLib == nil {
		lib, err := obs.Build("rule InnerA salience 5 { when F.I64 < 3 then F.I64 = F.I64 + 1; }\nrule InnerB salience 9 { when F.I64 == 1 && F.I32 == 0 then F.I32 = 1; }\nrule InnerC salience -4 { when F.I64 == 3 && F.I16 == 0 then F.I16 = 1; Retract(\"InnerC\"); }\n")
		if err != nil {
			panic("harness: inner rule set: " + err.Error())
		}
		innerLib = lib
	}
	kb, err := obs.Instance(innerLib)
	if err != nil {
		panic("harness: inner instance: " + err.Error())
	}
	dc := ast.NewDataContext()
	if err := dc.Add("F", &facts.Fact{}); err != nil {
		panic("harness: " + err.Error())
	}
	savedMax, savedFlag := eng.MaxCycle, eng.ReturnErrOnFailedRuleEvaluation
	eng.MaxCycle, eng.ReturnErrOnFailedRuleEvaluation = 20, false
	_ = eng.Execute(dc, kb)
	eng.MaxCycle, eng.ReturnErrOnFailedRuleEvaluation = savedMax, savedFlag
}

func filterNonProbe(evs []obs.Event) []obs.Event {
	out := make([]obs.Event, 0, len(evs))
	for _, e := range evs {
		if e.Kind != obs.EvProbe {
			out = append(out, e)
		}
	}
	return out
}

func names(m map[string]bool) []string {
	var out []string
	for k, v := range m {
		if v {
			out = append(out, k)
		}
	}
	sort.Strings(out)
	return out
}

func validate(c *Case, p *Prepared, rep *Report) {
	// locate the injected probe fault, if any
	rep.FaultIn = ""
	if c.ProbeFailAt > 0 && c.ProbeMode != facts.FailCancel {
		inFiring := ""
		for i := range rep.Events {
			ev := &rep.Events[i]
			switch ev.Kind {
			case obs.EvBegin:
				inFiring = ""
			case obs.EvExec:
				inFiring = ev.Rule
			case obs.EvProbe:
				if ev.ProbeN != c.ProbeFailAt {
					continue
				}
				rep.FaultSeen = true
				rep.FaultEventIndex = i
				if inFiring != "" {
					rep.FaultIn = "action"
					rep.FaultRule = inFiring
					continue
				}
				rep.FaultIn = "condition"
				// the rule under evaluation is the one whose evaluation event follows
				for j := i + 1; j < len(rep.Events); j++ {
					if rep.Events[j].Kind == obs.EvProbe {
						continue
					}
					if rep.Events[j].Kind == obs.EvEval {
						rep.Events[j].Faulted = true
						rep.FaultRule = rep.Events[j].Rule
					}
					break
				}
			}
		}
	}
	// split into cycles
	var cycles []*cycleRec
	var cur *cycleRec
	for i := range rep.Events {
		ev := &rep.Events[i]
		switch ev.Kind {
		case obs.EvBegin:
			cur = &cycleRec{n: ev.Cycle, begin: ev}
			cycles = append(cycles, cur)
			want := uint64(len(cycles))
			if ev.Cycle != want {
				rep.add("C06", "cycle numbering: BeginCycle(%d) is the %d-th cycle notification", ev.Cycle, want)
			}
		case obs.EvEval:
			if cur == nil {
				rep.add("C06", "evaluation of %s reported before any BeginCycle", ev.Rule)
				continue
			}
			if cur.exec != nil {
				rep.add("C06", "cycle %d: evaluation of %s reported after the execution event", cur.n, ev.Rule)
			}
			if ev.Cycle != cur.n {
				rep.add("C06", "cycle %d: evaluation of %s reported with cycle number %d", cur.n, ev.Rule, ev.Cycle)
			}
			cur.evals = append(cur.evals, *ev)
		case obs.EvExec:
			if cur == nil {
				rep.add("C06", "execution of %s reported before any BeginCycle", ev.Rule)
				continue
			}
			if cur.exec != nil {
				rep.add("C03", "cycle %d: a second rule (%s) executed after %s", cur.n, ev.Rule, cur.exec.Rule)
				rep.add("C06", "cycle %d: two execution events", cur.n)
				continue
			}
			if ev.Cycle != cur.n {
				rep.add("C06", "cycle %d: execution of %s reported with cycle number %d", cur.n, ev.Rule, ev.Cycle)
			}
			e := *ev
			cur.exec = &e
		case obs.EvProbe:
			if cur != nil && cur.exec == nil {
				cur.probes = append(cur.probes, facts.ProbeCall{Name: ev.ProbeName, ID: ev.ProbeID})
			}
		}
	}
	rep.Cycles = len(cycles)

	retracted := map[string]bool{}
	complete := false
	lastTruth := map[string]bool{}
	seenTruth := map[string]bool{}
	allNames := map[string]bool{}
	for _, r := range c.Rules {
		allNames[r.Name] = true
	}
	stopValidation := false

	for ci, cy := range cycles {
		if stopValidation {
			break
		}
		rep.ProbePhases = append(rep.ProbePhases, cy.probes)
		if complete {
			rep.add("C10", "cycle %d started after Complete() had been called", cy.n)
		}
		// --- evaluation phase
		evaluated := map[string]int{}
		trueSet := map[string]bool{}
		candSet := map[string]bool{}
		for _, ev := range cy.evals {
			evaluated[ev.Rule]++
			if !allNames[ev.Rule] {
				rep.add("C16", "cycle %d: an unknown or removed rule %q was evaluated", cy.n, ev.Rule)
				continue
			}
			if retracted[ev.Rule] {
				rep.add("C10", "cycle %d: rule %s was evaluated after it had been retracted", cy.n, ev.Rule)
			}
			truth := ev.Truth && ev.TruthErr == nil
			if ev.Faulted {
				// the injected failure happened while this rule's condition was evaluated: by default the
				// rule is simply not a candidate in this cycle
				if ev.Cand {
					rep.add("C14", "cycle %d: rule %s is reported as candidate although evaluating its condition failed (injected probe failure)", cy.n, ev.Rule)
				}
				if c.ErrOnFail {
					rep.add("C14", "cycle %d: the evaluation of %s failed but Execute went on although ReturnErrOnFailedRuleEvaluation is set", cy.n, ev.Rule)
				}
				continue
			}
			if ev.TruthErr != nil && c.ErrOnFail {
				rep.add("C14", "cycle %d: the condition of %s fails to evaluate (%v) but Execute went on although ReturnErrOnFailedRuleEvaluation is set", cy.n, ev.Rule, ev.TruthErr)
			}
			if truth {
				trueSet[ev.Rule] = true
			}
			if ev.Cand {
				candSet[ev.Rule] = true
			}
			if ev.Cand && !truth {
				rep.add("C06", "cycle %d: rule %s reported as candidate although its condition evaluated from scratch is false (%v)", cy.n, ev.Rule, ev.TruthErr)
				rep.add("C01s", "cycle %d: stale candidate %s", cy.n, ev.Rule)
			}
			if !ev.Cand && truth && !retracted[ev.Rule] {
				rep.add("C02", "cycle %d: rule %s is not reported as candidate although its condition evaluated from scratch on the current facts is true", cy.n, ev.Rule)
				rep.add("C06", "cycle %d: rule %s reported with a wrong candidate status (false, real status true)", cy.n, ev.Rule)
			}
			if seenTruth[ev.Rule] {
				if lastTruth[ev.Rule] && !truth {
					rep.FlipsTF++
				}
				if !lastTruth[ev.Rule] && truth {
					rep.FlipsFT++
				}
			}
			seenTruth[ev.Rule] = true
			lastTruth[ev.Rule] = truth
		}
		phaseComplete := cy.exec != nil || ci < len(cycles)-1 || rep.Err == nil || IsCycleLimitErr(rep.Err)
		if phaseComplete {
			for _, r := range c.Rules {
				n := evaluated[r.Name]
				switch {
				case retracted[r.Name]:
					// handled above
				case n == 0:
					rep.add("C06", "cycle %d: active rule %s was not evaluated", cy.n, r.Name)
					rep.add("C02", "cycle %d: active rule %s was overlooked (no evaluation reported)", cy.n, r.Name)
					rep.add("C10", "cycle %d: rule %s is not evaluated although it was never retracted (retracted so far: %v)", cy.n, r.Name, names(retracted))
				case n > 1:
					rep.add("C06", "cycle %d: rule %s was evaluated %d times", cy.n, r.Name, n)
				}
			}
		}
		// a retracted rule that would be true now (non-triviality for C10)
		if cy.begin != nil && cy.begin.TruthAll != nil {
			for name := range retracted {
				if retracted[name] && cy.begin.TruthAll[name] {
					rep.RetractedTrueLater = true
				}
			}
		}
		// conflict-set statistics
		if len(trueSet) >= 2 {
			sal := map[int64]int{}
			var max int64
			first := true
			neg := false
			for n := range trueSet {
				s := p.ByName[n].SalienceValue()
				sal[s]++
				if first || s > max {
					max = s
					first = false
				}
				if s < 0 {
					neg = true
				}
			}
			if len(sal) >= 2 {
				rep.MultiCand++
			}
			if sal[max] >= 2 {
				rep.TieCycles++
			}
			if neg {
				rep.NegSal++
			}
		}
		// --- firing
		if cy.exec == nil {
			continue
		}
		ex := cy.exec
		rep.Firings++
		rep.Fired = append(rep.Fired, ex.Rule)
		rule, known := p.ByName[ex.Rule]
		if !known {
			rep.add("C16", "cycle %d: an unknown or removed rule %q was executed", cy.n, ex.Rule)
			stopValidation = true
			continue
		}
		if retracted[ex.Rule] {
			rep.add("C01", "cycle %d: rule %s fired although it had been retracted", cy.n, ex.Rule)
			rep.add("C10", "cycle %d: rule %s fired after it had been retracted", cy.n, ex.Rule)
		}
		if !(ex.Truth && ex.TruthErr == nil) {
			rep.add("C01", "cycle %d: rule %s fired although its condition, evaluated from scratch on the facts of that moment, is false (%v)", cy.n, ex.Rule, ex.TruthErr)
		}
		if !candSet[ex.Rule] {
			rep.add("C06", "cycle %d: rule %s executed without having been reported as candidate in this cycle", cy.n, ex.Rule)
		}
		// maximal salience among the fresh-true active rules
		for n := range trueSet {
			if retracted[n] {
				continue
			}
			if p.ByName[n].SalienceValue() > rule.SalienceValue() {
				rep.add("C03", "cycle %d: rule %s (salience %d) fired although %s (salience %d) is satisfied", cy.n, ex.Rule, rule.SalienceValue(), n, p.ByName[n].SalienceValue())
			}
		}
		// an active rule the engine did not even evaluate in this cycle competes all the same
		for n, tr := range ex.TruthAll {
			if tr && !retracted[n] && allNames[n] && p.ByName[n].SalienceValue() > rule.SalienceValue() {
				rep.add("C03", "cycle %d: rule %s (salience %d) fired although the active rule %s (salience %d), which was not evaluated in this cycle, is satisfied", cy.n, ex.Rule, rule.SalienceValue(), n, p.ByName[n].SalienceValue())
			}
		}
		if uint64(rep.Firings) > c.MaxCycle {
			rep.add("C06", "firing %d exceeds MaxCycle %d", rep.Firings, c.MaxCycle)
		}
		// --- effect of the firing (per-step differential against the reference)
		var post *facts.State
		lastFiring := ci == len(cycles)-1
		if !lastFiring {
			// next BeginCycle carries the post-state
			for j := range rep.Events {
				e := &rep.Events[j]
				if e.Kind == obs.EvBegin && e.Cycle == cycles[ci+1].n {
					post = e.State
				}
			}
		} else {
			post = rep.Final
		}
		if rep.FaultIn == "action" && rep.FaultRule == ex.Rule && lastFiringOfFault(rep, cy.n) {
			// checked by the fault-specific oracle of C14 (existential prefix match)
			rep.FaultPre = ex.State
			rep.FaultPost = post
			if !lastFiring {
				rep.add("C14", "cycle %d: an action of rule %s failed (injected) but the run continued with another cycle", cy.n, ex.Rule)
			}
			stopValidation = true
			continue
		}
		model := ex.State.Copy()
		env := ref.New(model)
		done, rerr := env.ExecAll(rule.Then)
		if rerr != nil && ref.IsUndefined(rerr) {
			rep.Excluded = "reference: " + rerr.Error()
			stopValidation = true
			continue
		}
		actionFailed := rerr != nil
		if actionFailed {
			// the reference says action number done+1 fails: the engine must report an error naming
			// the rule, keep the effects of the completed actions and fire nothing further
			if !lastFiring {
				rep.add("C14", "cycle %d: action %d of rule %s fails (%v) but the run continued", cy.n, done+1, ex.Rule, rerr)
			}
			if rep.Err == nil {
				rep.add("C14", "action %d of rule %s fails (%v) but Execute returned nil", done+1, ex.Rule, rerr)
			} else if !strings.Contains(rep.Err.Error(), ex.Rule) {
				rep.add("C14", "action failure in rule %s reported without naming the rule: %v", ex.Rule, rep.Err)
			}
		} else if lastFiring && rep.Err != nil && !IsCycleLimitErr(rep.Err) && strings.Contains(rep.Err.Error(), "executing rule") && c.ProbeFailAt == 0 && !c.UseContext {
			rep.add("C04", "rule %s: the engine reports an action error the reference does not predict: %v", ex.Rule, rep.Err)
			if len(retracted) > 0 {
				rep.add("C10", "after Retract of %v an action of rule %s, which was not retracted, fails although nothing in it can fail: %v", names(retracted), ex.Rule, rep.Err)
			}
		}
		if post != nil {
			if d := facts.Diff(model, post); len(d) > 0 {
				prop := "C04"
				if actionFailed {
					prop = "C14"
				}
				if len(d) > 6 {
					d = append(d[:6], "...")
				}
				rep.add(prop, "cycle %d: after firing %s the facts differ from the reference replay of its actions: %s", cy.n, ex.Rule, strings.Join(d, "; "))
				for ai, st := range rule.Then {
					if cs, ok := st.(*gast.CallStmt); ok && ai < len(rule.Then)-1 {
						if call, ok := unfreeze(cs.X).(*gast.Call); ok && call.Recv == nil && call.Name == "Complete" {
							rep.add("C10", "cycle %d: the actions of rule %s that follow its Complete() call do not have their normal effect: %s", cy.n, ex.Rule, strings.Join(d, "; "))
							break
						}
					}
				}
				if len(retracted) > 0 && !retracted[ex.Rule] {
					rep.add("C10", "cycle %d: after Retract of %v the actions of rule %s, which was not retracted, no longer have their effect: %s", cy.n, names(retracted), ex.Rule, strings.Join(d, "; "))
				}
				rep.add("C03", "cycle %d: actions of %s not applied completely/exactly before the next cycle", cy.n, ex.Rule)
			}
		}
		// control effects
		nComplete := -1
		for ai, s := range rule.Then {
			if ai >= done {
				break
			}
			if cs, ok := s.(*gast.CallStmt); ok {
				if call, ok := unfreeze(cs.X).(*gast.Call); ok && call.Recv == nil {
					switch call.Name {
					case "Retract":
						if l, ok := call.Args[0].(*gast.Lit); ok {
							if allNames[l.S] {
								retracted[l.S] = true
								rep.Retracted[l.S] = true
							}
						}
					case "Complete":
						complete = true
						if nComplete < 0 {
							nComplete = ai
						}
					}
				}
			}
		}
		if nComplete >= 0 && nComplete < len(rule.Then)-1 {
			rep.CompleteNotLast = true
		}
		if actionFailed {
			stopValidation = true
		}
	}
	rep.Completed = complete

	if stopValidation || rep.Panicked != nil {
		if rep.EndedBy == "" {
			rep.EndedBy = "error"
		}
		return
	}
	// --- end of run
	last := (*cycleRec)(nil)
	if len(cycles) > 0 {
		last = cycles[len(cycles)-1]
	}
	switch {
	case rep.Err == nil:
		switch {
		case complete:
			rep.EndedBy = "complete"
			if last != nil && last.exec == nil {
				rep.add("C10", "an evaluation phase ran after Complete()")
			}
		default:
			rep.EndedBy = "quiescence"
			if last == nil {
				rep.add("C06", "Execute returned nil without reporting any cycle")
			} else {
				if last.exec != nil {
					rep.add("C02", "Execute returned nil right after firing %s without Complete and without a further evaluation phase", last.exec.Rule)
				}
				for _, ev := range last.evals {
					if ev.Faulted {
						continue // its evaluation failed (injected): legitimately not a candidate
					}
					if ev.Truth && ev.TruthErr == nil && !retracted[ev.Rule] {
						rep.add("C02", "Execute returned nil although rule %s is satisfied on the final facts", ev.Rule)
					}
				}
			}
		}
		if uint64(rep.Firings) > c.MaxCycle {
			rep.add("C06", "%d rules fired with MaxCycle %d", rep.Firings, c.MaxCycle)
		}
	case IsCycleLimitErr(rep.Err):
		rep.EndedBy = "cyclelimit"
		if uint64(rep.Firings) != c.MaxCycle {
			rep.add("C06", "cycle-limit error after %d firings with MaxCycle %d", rep.Firings, c.MaxCycle)
		}
		anyTrue := false
		if last != nil {
			for _, ev := range last.evals {
				if ev.Truth && ev.TruthErr == nil {
					anyTrue = true
				}
			}
			if last.exec != nil {
				rep.add("C06", "cycle-limit error although the last cycle fired %s", last.exec.Rule)
			}
		}
		if !anyTrue {
			rep.add("C06", "cycle-limit error although no rule is satisfied (one more firing is not needed)")
		}
		if complete {
			rep.add("C10", "cycle-limit error after Complete()")
		}
	default:
		rep.EndedBy = "error"
	}
}

func lastFiringOfFault(rep *Report, cycle uint64) bool {
	// the fault belongs to the firing whose execution event precedes the fault's probe event most closely
	var c uint64
	for i := 0; i < rep.FaultEventIndex && i < len(rep.Events); i++ {
		if rep.Events[i].Kind == obs.EvExec {
			c = rep.Events[i].Cycle
		}
	}
	rep.FaultCycle = c
	return c == cycle
}

func unfreeze(e gast.Expr) gast.Expr {
	if f, ok := e.(*gast.Frozen); ok {
		return f.X
	}
	return e
}

// Summary renders a short description of the run for samples.
func (r *Report) Summary() map[string]interface{} {
	errs := ""
	if r.Err != nil {
		errs = r.Err.Error()
		if len(errs) > 120 {
			errs = errs[:120] + "..."
		}
	}
	tr := obs.TraceString(r.Events)
	if len(tr) > 40 {
		tr = append(tr[:40], "...")
	}
	return map[string]interface{}{"ended_by": r.EndedBy, "firings": r.Firings, "fired": r.Fired, "flips_true_false": r.FlipsTF, "flips_false_true": r.FlipsFT,
		"error": errs, "trace": tr}
}
