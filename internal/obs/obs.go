// Package obs builds knowledge bases from text, runs the engine under recording listeners and
// a panic fence, captures fact states from inside callbacks, and evaluates single rules from
// scratch on a shadow data context ("fresh-engine truth").
package obs

import (
	"context"
	"fmt"
	"sort"
	"strings"

	"github.com/hyperjumptech/grule-rule-engine/ast"
	"github.com/hyperjumptech/grule-rule-engine/builder"
	"github.com/hyperjumptech/grule-rule-engine/engine"
	"github.com/hyperjumptech/grule-rule-engine/pkg"

	"verif/internal/facts"
)

// KBName and KBVersion are used for every knowledge base unless stated otherwise.
const (
	KBName    = "kb"
	KBVersion = "1"
)

// BuildInto builds text into the named knowledge base of lib, fencing panics.
func BuildInto(lib *ast.KnowledgeLibrary, name, version, text string) (err error, panicked interface{}) {
	defer func() {
		if r := recover(); r != nil {
			panicked = r
			err = fmt.Errorf("builder panicked: %v", r)
		}
	}()
	rb := builder.NewRuleBuilder(lib)
	err = rb.BuildRuleFromResource(name, version, pkg.NewBytesResource([]byte(text)))
	return err, nil
}

// BuildBatch hands several texts to the builder's batch entry point (BuildRuleFromResources); the resources
// alternate between the byte and the reader form.
func BuildBatch(lib *ast.KnowledgeLibrary, name, version string, texts []string) (err error, panicked interface{}) {
	defer func() {
		if r := recover(); r != nil {
			panicked = r
			err = fmt.Errorf("builder panicked: %v", r)
		}
	}()
	var res []pkg.Resource
	for i, t := range texts {
		if i%2 == 0 {
			res = append(res, pkg.NewBytesResource([]byte(t)))
		} else {
			res = append(res, pkg.NewReaderResource(strings.NewReader(t)))
		}
	}
	err = builder.NewRuleBuilder(lib).BuildRuleFromResources(name, version, res)
	return err, nil
}

// Build builds text into a fresh library.
func Build(text string) (*ast.KnowledgeLibrary, error) {
	lib := ast.NewKnowledgeLibrary()
	err, _ := BuildInto(lib, KBName, KBVersion, text)
	if err != nil {
		return nil, err
	}
	return lib, nil
}

// Instance creates an instance, fencing panics.
func Instance(lib *ast.KnowledgeLibrary) (kb *ast.KnowledgeBase, err error) {
	return InstanceOf(lib, KBName, KBVersion)
}

// InstanceOf creates an instance of a named knowledge base.
func InstanceOf(lib *ast.KnowledgeLibrary, name, version string) (kb *ast.KnowledgeBase, err error) {
	defer func() {
		if r := recover(); r != nil {
			kb = nil
			err = fmt.Errorf("NewKnowledgeBaseInstance panicked: %v", r)
		}
	}()
	return lib.NewKnowledgeBaseInstance(name, version)
}

// NewDataContext registers the live objects of st in a new data context: Go facts by pointer,
// JSON documents through AddJSON, top-level variables through Add.
func NewDataContext(st *facts.State) (ast.IDataContext, error) {
	dc := ast.NewDataContext()
	for _, k := range sortedFactKeys(st.Go) {
		if st.Go[k] == nil {
			continue
		}
		if err := dc.Add(k, st.Go[k]); err != nil {
			return nil, err
		}
	}
	jk := make([]string, 0, len(st.JSON))
	for k := range st.JSON {
		jk = append(jk, k)
	}
	sort.Strings(jk)
	for _, k := range jk {
		if err := dc.AddJSON(k, facts.MarshalJSONDoc(st.JSON[k])); err != nil {
			return nil, err
		}
	}
	tk := make([]string, 0, len(st.Top))
	for k := range st.Top {
		tk = append(tk, k)
	}
	sort.Strings(tk)
	for _, k := range tk {
		if err := dc.Add(k, st.Top[k]); err != nil {
			return nil, err
		}
	}
	return dc, nil
}

func sortedFactKeys(m map[string]*facts.Fact) []string {
	ks := make([]string, 0, len(m))
	for k := range m {
		ks = append(ks, k)
	}
	sort.Strings(ks)
	return ks
}

// Capture takes a deep copy of the current fact data: Go facts from the caller's live objects,
// JSON documents and top-level variables from the data context (that is where they live).
func Capture(live *facts.State, dc ast.IDataContext) *facts.State {
	out := &facts.State{Go: map[string]*facts.Fact{}, JSON: map[string]interface{}{}, Top: map[string]interface{}{}}
	for k, f := range live.Go {
		out.Go[k] = facts.CopyFact(f)
	}
	for k := range live.JSON {
		n := dc.Get(k)
		if n == nil {
			continue
		}
		v := n.Value()
		if v.IsValid() && v.CanInterface() {
			out.JSON[k] = facts.CopyTree(v.Interface())
		} else {
			out.JSON[k] = nil
		}
	}
	// top-level variables: the declared ones plus any created by rules
	keys := map[string]bool{}
	for k := range live.Top {
		keys[k] = true
	}
	for _, k := range dc.GetKeys() {
		if k == "DEFUNC" {
			continue
		}
		if _, isGo := live.Go[k]; isGo {
			continue
		}
		if _, isJ := live.JSON[k]; isJ {
			continue
		}
		keys[k] = true
	}
	for k := range keys {
		n := dc.Get(k)
		if n == nil {
			continue
		}
		v := n.Value()
		if v.IsValid() && v.CanInterface() {
			out.Top[k] = v.Interface()
		} else {
			out.Top[k] = nil
		}
	}
	return out
}

// ---------------------------------------------------------------------------------------------
// recording listener

// EvKind is the kind of a trace event.
type EvKind int

const (
	EvBegin EvKind = iota
	EvEval
	EvExec
	EvProbe
)

func (k EvKind) String() string { return [...]string{"begin", "eval", "exec", "probe"}[k] }

// Event is one observation of a run.
type Event struct {
	Kind  EvKind
	Cycle uint64
	Rule  string
	Cand  bool
	// probe events
	ProbeName string
	ProbeID   int64
	ProbeN    int
	// filled by hooks
	State    *facts.State
	Truth    bool
	TruthErr error
	HasTruth bool
	TruthAll map[string]bool // fresh truth of every rule at a BeginCycle (optional)
	Faulted  bool            // the evaluation during which the injected probe fault happened
}

func (e Event) String() string {
	switch e.Kind {
	case EvBegin:
		return fmt.Sprintf("begin(%d)", e.Cycle)
	case EvEval:
		return fmt.Sprintf("eval(%d,%s,%v)", e.Cycle, e.Rule, e.Cand)
	case EvExec:
		return fmt.Sprintf("exec(%d,%s)", e.Cycle, e.Rule)
	default:
		return fmt.Sprintf("probe(%s,%d,#%d)", e.ProbeName, e.ProbeID, e.ProbeN)
	}
}

// Recorder implements engine.GruleEngineListener.
type Recorder struct {
	Events []Event
	// Hook, when set, is called synchronously for each event after it has been appended; it may
	// fill the event's State/Truth fields through the pointer.
	Hook func(ev *Event)
	// Mute drops events while set (a nested run on the same engine reports to the same listeners)
	Mute bool
}

func (r *Recorder) add(ev Event) {
	if r.Mute {
		return
	}
	r.Events = append(r.Events, ev)
	if r.Hook != nil {
		r.Hook(&r.Events[len(r.Events)-1])
	}
}

// EvaluateRuleEntry implements the listener interface.
func (r *Recorder) EvaluateRuleEntry(ctx context.Context, cycle uint64, entry *ast.RuleEntry, candidate bool) {
	r.add(Event{Kind: EvEval, Cycle: cycle, Rule: entry.RuleName, Cand: candidate})
}

// ExecuteRuleEntry implements the listener interface.
func (r *Recorder) ExecuteRuleEntry(ctx context.Context, cycle uint64, entry *ast.RuleEntry) {
	r.add(Event{Kind: EvExec, Cycle: cycle, Rule: entry.RuleName})
}

// BeginCycle implements the listener interface.
func (r *Recorder) BeginCycle(ctx context.Context, cycle uint64) {
	r.add(Event{Kind: EvBegin, Cycle: cycle})
}

// Probe appends a probe event (called from facts.Probe.OnCall).
func (r *Recorder) Probe(name string, id int64, n int) {
	r.add(Event{Kind: EvProbe, ProbeName: name, ProbeID: id, ProbeN: n})
}

// TraceString renders the events compactly.
func TraceString(evs []Event) []string {
	out := make([]string, len(evs))
	for i, e := range evs {
		out[i] = e.String()
	}
	return out
}

// ---------------------------------------------------------------------------------------------
// running

// RunOpts configures one Execute call.
type RunOpts struct {
	MaxCycle  uint64
	ErrOnFail bool // ReturnErrOnFailedRuleEvaluation
	Listeners []engine.GruleEngineListener
	Ctx       context.Context
	// OnEngine, when set, receives the engine value before the run starts (a fact method may run another
	// knowledge base on it)
	OnEngine func(*engine.GruleEngine)
}

// RunResult is the outcome of one Execute call.
type RunResult struct {
	Err      error
	Panicked interface{} // non-nil when a panic escaped Execute
}

// Execute runs the engine inside a panic fence.
func Execute(kb *ast.KnowledgeBase, dc ast.IDataContext, o RunOpts) (res RunResult) {
	eng := engine.NewGruleEngine()
	eng.MaxCycle = o.MaxCycle
	eng.ReturnErrOnFailedRuleEvaluation = o.ErrOnFail
	eng.Listeners = o.Listeners
	if o.OnEngine != nil {
		o.OnEngine(eng)
	}
	ctx := o.Ctx
	defer func() {
		if r := recover(); r != nil {
			res.Panicked = r
			res.Err = fmt.Errorf("panic escaped Execute: %v", r)
		}
	}()
	if ctx == nil {
		res.Err = eng.Execute(dc, kb)
	} else {
		res.Err = eng.ExecuteWithContext(ctx, dc, kb)
	}
	return res
}

// FetchRaw runs FetchMatchingRules inside a panic fence and returns the slice the engine returned.
func FetchRaw(kb *ast.KnowledgeBase, dc ast.IDataContext, errOnFail bool) (rs []*ast.RuleEntry, err error, panicked interface{}) {
	eng := engine.NewGruleEngine()
	eng.ReturnErrOnFailedRuleEvaluation = errOnFail
	defer func() {
		if r := recover(); r != nil {
			panicked = r
			err = fmt.Errorf("panic escaped FetchMatchingRules: %v", r)
		}
	}()
	rs, err = eng.FetchMatchingRules(dc, kb)
	return rs, err, nil
}

// Fetch runs FetchMatchingRules inside a panic fence.
func Fetch(kb *ast.KnowledgeBase, dc ast.IDataContext, errOnFail bool) (names []string, sal []int, err error, panicked interface{}) {
	eng := engine.NewGruleEngine()
	eng.ReturnErrOnFailedRuleEvaluation = errOnFail
	defer func() {
		if r := recover(); r != nil {
			panicked = r
			err = fmt.Errorf("panic escaped FetchMatchingRules: %v", r)
		}
	}()
	rs, e := eng.FetchMatchingRules(dc, kb)
	for _, r := range rs {
		names = append(names, r.RuleName)
		sal = append(sal, r.Salience)
	}
	return names, sal, e, nil
}

// ---------------------------------------------------------------------------------------------
// fresh-engine truth

// Solo holds every rule of a case built alone in its own knowledge base (the blueprint is used
// directly, so the result does not depend on cloning).
type Solo struct {
	kbs   map[string]*ast.KnowledgeBase
	rules map[string]*ast.RuleEntry
}

// FreshNodes makes Solo.Truth read the facts through value nodes of its own instead of sharing the nodes of the
// data context under test.
var FreshNodes = true

// NewSolo builds each named rule text alone.
func NewSolo(texts map[string]string) (*Solo, error) {
	s := &Solo{kbs: map[string]*ast.KnowledgeBase{}, rules: map[string]*ast.RuleEntry{}}
	for name, text := range texts {
		lib := ast.NewKnowledgeLibrary()
		err, _ := BuildInto(lib, "solo", "1", text)
		if err != nil {
			return nil, fmt.Errorf("solo build of %s: %w", name, err)
		}
		kb := lib.GetKnowledgeBase("solo", "1")
		re, ok := kb.RuleEntries[name]
		if !ok {
			return nil, fmt.Errorf("solo build of %s: rule missing", name)
		}
		s.kbs[name] = kb
		s.rules[name] = re
	}
	return s, nil
}

// Truth evaluates the named rule's condition from scratch on the data of the real data context
// (same fact objects, same JSON nodes, same top-level entries). Probes are put into neutral mode.
func (s *Solo) Truth(name string, live *facts.State, real ast.IDataContext) (truth bool, err error) {
	kb, ok := s.kbs[name]
	if !ok {
		return false, fmt.Errorf("no solo rule %s", name)
	}
	rdc, ok := real.(*ast.DataContext)
	if !ok {
		return false, fmt.Errorf("unexpected data context type %T", real)
	}
	shadow := ast.NewDataContext().(*ast.DataContext)
	for k, v := range rdc.ObjectStore {
		if k == "DEFUNC" {
			continue
		}
		if FreshNodes {
			// a value node of its own over the same data: whatever the node under test remembers about the
			// objects below it (child nodes, reflected values) cannot leak into the expectation
			if f, isGo := live.Go[k]; isGo && f != nil {
				if err := shadow.Add(k, f); err == nil {
					continue
				}
			} else if _, isJSON := live.JSON[k]; isJSON {
				// JSON facts keep the node of the data context under test: after a rule assigned a Go value into
				// the document, re-parsing its text would change the kind of that number (int64 -> float64), and
				// with it the meaning of expressions over it
				shadow.ObjectStore[k] = v
				continue
			} else if val := v.Value(); val.IsValid() && val.CanInterface() {
				if err := shadow.Add(k, val.Interface()); err == nil {
					continue
				}
			}
		}
		shadow.ObjectStore[k] = v
	}
	_ = shadow.Add("DEFUNC", &ast.BuiltInFunctions{Knowledge: kb, WorkingMemory: kb.WorkingMemory, DataContext: shadow})
	kb.WorkingMemory.ResetAll()
	kb.Reset()
	kb.InitializeContext(shadow)
	restore := setOracle(live, true)
	defer restore()
	defer func() {
		if r := recover(); r != nil {
			truth = false
			err = fmt.Errorf("solo evaluation panicked: %v", r)
		}
	}()
	return s.rules[name].Evaluate(context.Background(), shadow, kb.WorkingMemory)
}

// marshalDoc renders a JSON tree; a tree that JSON cannot express (a non-finite number) is reported, not
// panicked about: the caller then shares the node of the data context under test.
func marshalDoc(tree interface{}) (doc []byte, ok bool) {
	defer func() {
		if r := recover(); r != nil {
			doc, ok = nil, false
		}
	}()
	return facts.MarshalJSONDoc(tree), true
}

func setOracle(live *facts.State, on bool) func() {
	type saved struct {
		p   *facts.Probe
		old bool
	}
	var ss []saved
	for _, f := range live.Go {
		if f == nil {
			continue
		}
		if p := f.GetProbe(); p != nil {
			ss = append(ss, saved{p, p.Oracle})
			p.Oracle = on
		}
	}
	return func() {
		for _, s := range ss {
			s.p.Oracle = s.old
		}
	}
}
