package obs

import (
	"hash/fnv"
	"math"
	"reflect"
	"strings"
)

// DeepHash hashes everything reachable from v by a generic reflection walk: every struct behind
// any pointer, slice or map, exported or not - so memo flags and remembered values of AST nodes
// are included and a refactoring of the working memory cannot blind it. Values of packages other
// than the engine's ast/pkg packages (fact objects, value nodes, data contexts) are hashed by
// identity only. Maps are combined order-independently.
func DeepHash(v interface{}) uint64 {
	st := &hashState{memo: map[uintptr]uint64{}, busy: map[uintptr]bool{}}
	return st.hash(reflect.ValueOf(v))
}

type hashState struct {
	memo map[uintptr]uint64
	busy map[uintptr]bool
}

func mix(a, b uint64) uint64 {
	h := a ^ (b + 0x9e3779b97f4a7c15 + (a << 6) + (a >> 2))
	h *= 0xff51afd7ed558ccd
	h ^= h >> 33
	return h
}

func hashString(s string) uint64 {
	h := fnv.New64a()
	h.Write([]byte(s))
	return h.Sum64()
}

func walkInto(t reflect.Type) bool {
	for t.Kind() == reflect.Ptr {
		t = t.Elem()
	}
	p := t.PkgPath()
	if p == "" {
		return true // built-in and unnamed types
	}
	if p == "reflect" || p == "sync" || p == "sync/atomic" {
		return true
	}
	return strings.HasPrefix(p, "github.com/hyperjumptech/grule-rule-engine/ast") || p == "github.com/hyperjumptech/grule-rule-engine/pkg"
}

func (st *hashState) hash(v reflect.Value) uint64 {
	if !v.IsValid() {
		return 1
	}
	switch v.Kind() {
	case reflect.Bool:
		if v.Bool() {
			return 3
		}
		return 2
	case reflect.Int, reflect.Int8, reflect.Int16, reflect.Int32, reflect.Int64:
		return mix(5, uint64(v.Int()))
	case reflect.Uint, reflect.Uint8, reflect.Uint16, reflect.Uint32, reflect.Uint64, reflect.Uintptr:
		return mix(7, v.Uint())
	case reflect.Float32, reflect.Float64:
		return mix(11, math.Float64bits(v.Float()))
	case reflect.String:
		return mix(13, hashString(v.String()))
	case reflect.UnsafePointer, reflect.Func, reflect.Chan:
		return mix(17, uint64(v.Pointer()))
	case reflect.Ptr:
		if v.IsNil() {
			return 19
		}
		addr := v.Pointer()
		if !walkInto(v.Type()) {
			return mix(23, uint64(addr))
		}
		if h, ok := st.memo[addr]; ok {
			return h
		}
		if st.busy[addr] {
			return 29
		}
		st.busy[addr] = true
		h := mix(31, st.hash(v.Elem()))
		delete(st.busy, addr)
		st.memo[addr] = h
		return h
	case reflect.Interface:
		if v.IsNil() {
			return 37
		}
		e := v.Elem()
		return mix(mix(41, hashString(e.Type().String())), st.hash(e))
	case reflect.Struct:
		if !walkInto(v.Type()) {
			// foreign struct by value (e.g. time.Time): hash its plain content
			h := mix(43, hashString(v.Type().String()))
			for i := 0; i < v.NumField(); i++ {
				f := v.Field(i)
				switch f.Kind() {
				case reflect.Ptr, reflect.Map, reflect.Slice, reflect.Interface, reflect.Func, reflect.Chan, reflect.UnsafePointer:
					if f.Kind() == reflect.Interface {
						continue
					}
					h = mix(h, uint64(f.Pointer()))
				default:
					h = mix(h, st.hash(f))
				}
			}
			return h
		}
		h := mix(47, hashString(v.Type().String()))
		for i := 0; i < v.NumField(); i++ {
			h = mix(h, st.hash(v.Field(i)))
		}
		return h
	case reflect.Slice:
		if v.IsNil() {
			return 53
		}
		fallthrough
	case reflect.Array:
		h := mix(59, uint64(v.Len()))
		for i := 0; i < v.Len(); i++ {
			h = mix(h, st.hash(v.Index(i)))
		}
		return h
	case reflect.Map:
		if v.IsNil() {
			return 61
		}
		var sum uint64
		it := v.MapRange()
		for it.Next() {
			sum += mix(st.hash(it.Key()), st.hash(it.Value()))
		}
		return mix(mix(67, uint64(v.Len())), sum)
	}
	return 71
}
