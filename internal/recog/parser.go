package recog

import (
	"math"
	"strconv"
	"strings"
	"unicode/utf8"
)

// Verdict of the recogniser.
type Verdict int

const (
	Accept   Verdict = iota
	Syntax           // lexical or grammatical problem
	Semantic         // grammatical, but a literal, escape, salience or rule name is invalid
)

func (v Verdict) String() string { return [...]string{"accept", "syntax", "semantic"}[v] }

// RuleInfo describes one rule of an accepted document.
type RuleInfo struct {
	Name        string
	Description string // raw text between the quotes; "No Description" convention is the builder's
	HasDesc     bool
	Salience    int64
}

// Result of recognising a document.
type Result struct {
	V      Verdict
	Reason string
	Rules  []RuleInfo
	// SalienceOutOfRange is set when the only problem found is a salience literal outside int32.
	SalienceOutOfRange bool
}

type parser struct {
	t   []Token
	pos int
	// literal tokens seen in constant positions
	ints    []string
	floats  []string
	strs    []string
	salLits []string
	rules   []RuleInfo
	// deepest failure position (for diagnostics)
	far int
}

func (p *parser) peek() Kind {
	if p.pos < len(p.t) {
		return p.t[p.pos].K
	}
	return EOF
}

func (p *parser) accept(k Kind) bool {
	if p.peek() == k {
		p.pos++
		if p.pos > p.far {
			p.far = p.pos
		}
		return true
	}
	return false
}

type mark struct{ pos, ints, floats, strs int }

func (p *parser) mark() mark { return mark{p.pos, len(p.ints), len(p.floats), len(p.strs)} }

func (p *parser) reset(m mark) {
	p.pos = m.pos
	p.ints = p.ints[:m.ints]
	p.floats = p.floats[:m.floats]
	p.strs = p.strs[:m.strs]
}

func (p *parser) text() string { return p.t[p.pos-1].Text }

// grl := rule* EOF
func (p *parser) grl() bool {
	for p.peek() == RULE {
		if !p.rule() {
			return false
		}
	}
	return p.peek() == EOF
}

// rule := RULE NAME (DQ|SQ)? (SALIENCE int)? '{' WHEN expr THEN (then ';')+ '}'
func (p *parser) rule() bool {
	if !p.accept(RULE) || !p.accept(SIMPLENAME) {
		return false
	}
	ri := RuleInfo{Name: p.text()}
	if p.accept(DQ_STRING) || p.accept(SQ_STRING) {
		txt := p.text()
		// a description is a string literal: escapes denote the escaped character; text that is not
		// a valid escaped string is kept as written
		if dec, ok := decode(txt); ok {
			ri.Description = dec
		} else {
			ri.Description = txt[1 : len(txt)-1]
		}
		ri.HasDesc = true
	}
	if p.accept(SALIENCE) {
		neg := p.accept(MINUS)
		if !(p.accept(DEC_LIT) || p.accept(HEX_LIT) || p.accept(OCT_LIT)) {
			return false
		}
		s := p.text()
		if neg {
			s = "-" + s
		}
		p.salLits = append(p.salLits, s)
		if v, err := strconv.ParseInt(s, 0, 64); err == nil {
			ri.Salience = v
		}
	}
	if !p.accept(LBRACE) || !p.accept(WHEN) || !p.expr() || !p.accept(THEN) {
		return false
	}
	n := 0
	for p.peek() != RBRACE && p.peek() != EOF {
		if !p.then() || !p.accept(SEMICOLON) {
			return false
		}
		n++
	}
	if n == 0 || !p.accept(RBRACE) {
		return false
	}
	p.rules = append(p.rules, ri)
	return true
}

func isAssignOp(k Kind) bool {
	return k == ASSIGN || k == PLUS_ASSIGN || k == MINUS_ASSIGN || k == DIV_ASSIGN || k == MUL_ASSIGN
}

// then := variable assignOp expr | atom
func (p *parser) then() bool {
	m := p.mark()
	if p.variable() && isAssignOp(p.peek()) {
		p.pos++
		if p.expr() && p.peek() == SEMICOLON {
			return true
		}
	}
	p.reset(m)
	return p.atom()
}

// variable := NAME ('.' NAME | '[' expr ']')*
func (p *parser) variable() bool {
	if !p.accept(SIMPLENAME) {
		return false
	}
	for {
		switch p.peek() {
		case DOT:
			m := p.mark()
			p.pos++
			if !p.accept(SIMPLENAME) {
				p.reset(m)
				return true
			}
			if p.peek() == LPAREN {
				// a method call is not part of a variable
				p.reset(m)
				return true
			}
		case LBRACK:
			m := p.mark()
			p.pos++
			if !p.expr() || !p.accept(RBRACK) {
				p.reset(m)
				return true
			}
		default:
			return true
		}
	}
}

func isBinOp(k Kind) bool {
	switch k {
	case MUL, DIV, MOD, PLUS, MINUS, BITAND, BITOR, GT, LT, GTE, LTE, EQUALS, NOTEQUALS, AND, OR:
		return true
	}
	return false
}

// expr := primary (binop primary)*
func (p *parser) expr() bool {
	if !p.primary() {
		return false
	}
	for isBinOp(p.peek()) {
		m := p.mark()
		p.pos++
		if !p.primary() {
			p.reset(m)
			return true // the caller will fail on the dangling operator
		}
	}
	return true
}

// primary := '!'? '(' expr ')' | atom
func (p *parser) primary() bool {
	m := p.mark()
	p.accept(NEGATION)
	if p.accept(LPAREN) {
		if p.expr() && p.accept(RPAREN) {
			return true
		}
	}
	p.reset(m)
	return p.atom()
}

// atom := '!'* (constant | NAME call?) ('.' NAME call? | '[' expr ']')*
func (p *parser) atom() bool {
	for p.accept(NEGATION) {
	}
	if !p.constant() {
		if !p.accept(SIMPLENAME) {
			return false
		}
		if p.peek() == LPAREN {
			if !p.call() {
				return false
			}
		}
	}
	for {
		switch p.peek() {
		case DOT:
			m := p.mark()
			p.pos++
			if !p.accept(SIMPLENAME) {
				p.reset(m)
				return true
			}
			if p.peek() == LPAREN {
				if !p.call() {
					p.reset(m)
					return true
				}
			}
		case LBRACK:
			m := p.mark()
			p.pos++
			if !p.expr() || !p.accept(RBRACK) {
				p.reset(m)
				return true
			}
		default:
			return true
		}
	}
}

// call := '(' (expr (',' expr)*)? ')'
func (p *parser) call() bool {
	if !p.accept(LPAREN) {
		return false
	}
	if p.accept(RPAREN) {
		return true
	}
	if !p.expr() {
		return false
	}
	for p.accept(COMMA) {
		if !p.expr() {
			return false
		}
	}
	return p.accept(RPAREN)
}

// constant := DQ | SQ | '-'? (DEC|HEX|OCT|DECFLOAT|HEXFLOAT) | TRUE | FALSE | NIL
func (p *parser) constant() bool {
	switch p.peek() {
	case DQ_STRING, SQ_STRING:
		p.pos++
		p.strs = append(p.strs, p.text())
		return true
	case TRUE, FALSE, NIL:
		p.pos++
		return true
	}
	m := p.mark()
	neg := p.accept(MINUS)
	pre := ""
	if neg {
		pre = "-"
	}
	switch p.peek() {
	case DEC_LIT, HEX_LIT, OCT_LIT:
		p.pos++
		p.ints = append(p.ints, pre+p.text())
		return true
	case DEC_FLOAT, HEX_FLOAT:
		p.pos++
		p.floats = append(p.floats, pre+p.text())
		return true
	}
	p.reset(m)
	return false
}

// decode returns the value of a string literal token.
func decode(tok string) (string, bool) {
	if !unquote(tok) {
		return "", false
	}
	q := tok[0]
	s := tok[1 : len(tok)-1]
	var b strings.Builder
	for len(s) > 0 {
		r, multibyte, rest, err := strconv.UnquoteChar(s, q)
		if err != nil {
			return "", false
		}
		s = rest
		if r < utf8.RuneSelf || !multibyte {
			b.WriteByte(byte(r))
		} else {
			b.WriteRune(r)
		}
	}
	return b.String(), true
}

// unquote mirrors the documented escape rules: Go escapes (strconv.UnquoteChar) under the
// literal's own quote character.
func unquote(tok string) bool {
	if len(tok) < 2 {
		return false
	}
	q := tok[0]
	if q != tok[len(tok)-1] || (q != '"' && q != '\'') {
		return false
	}
	s := tok[1 : len(tok)-1]
	if !strings.ContainsRune(s, '\\') && !strings.ContainsRune(s, rune(q)) && utf8.ValidString(s) {
		return true
	}
	for len(s) > 0 {
		_, _, rest, err := strconv.UnquoteChar(s, q)
		if err != nil {
			return false
		}
		s = rest
	}
	return true
}

// Recognise decides whether text is an acceptable GRL document for a knowledge base that
// already holds the rule names in existing.
func Recognise(text string, existing map[string]bool) Result {
	toks, ok := Lex(text, false)
	if !ok {
		return Result{V: Syntax, Reason: "lexical error"}
	}
	p := &parser{t: toks}
	if !p.grl() {
		at := "end"
		if p.far < len(toks) {
			at = toks[p.far].Text
		}
		return Result{V: Syntax, Reason: "syntax error near " + at}
	}
	for _, s := range p.ints {
		if _, err := strconv.ParseInt(s, 0, 64); err != nil {
			return Result{V: Semantic, Reason: "integer literal out of range: " + s}
		}
	}
	for _, s := range p.floats {
		if _, err := strconv.ParseFloat(s, 64); err != nil {
			return Result{V: Semantic, Reason: "float literal out of range: " + s}
		}
	}
	for _, s := range p.strs {
		if !unquote(s) {
			return Result{V: Semantic, Reason: "bad string escape: " + s}
		}
	}
	seen := map[string]bool{}
	for _, r := range p.rules {
		if seen[r.Name] {
			return Result{V: Semantic, Reason: "duplicate rule name " + r.Name}
		}
		if existing[r.Name] {
			return Result{V: Semantic, Reason: "rule name exists " + r.Name}
		}
		seen[r.Name] = true
	}
	for _, s := range p.salLits {
		v, err := strconv.ParseInt(s, 0, 64)
		if err != nil {
			return Result{V: Semantic, Reason: "salience literal out of range: " + s}
		}
		if v < math.MinInt32 || v > math.MaxInt32 {
			return Result{V: Semantic, Reason: "salience outside int32: " + s, SalienceOutOfRange: true}
		}
	}
	return Result{V: Accept, Rules: p.rules}
}
