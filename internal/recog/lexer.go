// Package recog is an independent recogniser for GRL: a maximal-munch lexer written from the
// token rules of antlr/grulev3.g4 (first-rule tie-break, skip rules included), a backtracking
// parser for the parser rules, and the literal checks the builder applies (integer range,
// salience int32, string escapes, float range, distinct rule names). It shares no code with
// the ANTLR-generated parser.
package recog

// Kind is a token kind.
type Kind int

const (
	COMMA Kind = iota
	PLUS
	MINUS
	DIV
	MUL
	MOD
	DOT
	SEMICOLON
	LBRACE
	RBRACE
	LPAREN
	RPAREN
	LBRACK
	RBRACK
	RULE
	WHEN
	THEN
	AND
	OR
	TRUE
	FALSE
	NIL
	NEGATION
	SALIENCE
	EQUALS
	ASSIGN
	PLUS_ASSIGN
	MINUS_ASSIGN
	DIV_ASSIGN
	MUL_ASSIGN
	GT
	LT
	GTE
	LTE
	NOTEQUALS
	BITAND
	BITOR
	SIMPLENAME
	DQ_STRING
	SQ_STRING
	DEC_FLOAT
	DEC_EXPONENT
	HEX_FLOAT
	HEX_EXPONENT
	DEC_LIT
	HEX_LIT
	OCT_LIT
	SPACE
	COMMENT
	LINE_COMMENT
	EOF
)

// Token is a lexed token.
type Token struct {
	K     Kind
	Text  string
	Start int // rune offset
	End   int
}

type rule struct {
	k     Kind
	match func(r []rune, i int) int // length of the longest match at i (0 = none)
}

func lit(s string) func([]rune, int) int {
	rs := []rune(s)
	return func(r []rune, i int) int {
		if i+len(rs) > len(r) {
			return 0
		}
		for j, c := range rs {
			if r[i+j] != c {
				return 0
			}
		}
		return len(rs)
	}
}

func kw(s string) func([]rune, int) int {
	rs := []rune(s) // lower case
	return func(r []rune, i int) int {
		if i+len(rs) > len(r) {
			return 0
		}
		for j, c := range rs {
			x := r[i+j]
			if x >= 'A' && x <= 'Z' {
				x += 'a' - 'A'
			}
			if x != c {
				return 0
			}
		}
		return len(rs)
	}
}

func isISC(c rune) bool {
	switch {
	case c >= 'A' && c <= 'Z', c >= 'a' && c <= 'z',
		c >= 0x00C0 && c <= 0x00D6, c >= 0x00D8 && c <= 0x00F6, c >= 0x00F8 && c <= 0x02FF,
		c >= 0x0370 && c <= 0x037D, c >= 0x037F && c <= 0x1FFF, c >= 0x200C && c <= 0x200D,
		c >= 0x2070 && c <= 0x218F, c >= 0x2C00 && c <= 0x2FEF, c >= 0x3001 && c <= 0xD7FF,
		c >= 0xF900 && c <= 0xFDCF, c >= 0xFDF0 && c <= 0xFFFD:
		return true
	}
	return false
}

func isIC(c rune) bool {
	if isISC(c) {
		return true
	}
	switch {
	case c >= '0' && c <= '9', c == '_', c == 0x00B7, c >= 0x0300 && c <= 0x036F, c >= 0x203F && c <= 0x2040:
		return true
	}
	return false
}

func isDec(c rune) bool { return c >= '0' && c <= '9' }
func isOct(c rune) bool { return c >= '0' && c <= '7' }
func isHex(c rune) bool {
	return (c >= '0' && c <= '9') || (c >= 'a' && c <= 'f') || (c >= 'A' && c <= 'F')
}

func run(r []rune, i int, pred func(rune) bool) int {
	j := i
	for j < len(r) && pred(r[j]) {
		j++
	}
	return j - i
}

func matchName(r []rune, i int) int {
	if i >= len(r) || !isISC(r[i]) {
		return 0
	}
	return 1 + run(r, i+1, isIC)
}

func matchString(q rune) func([]rune, int) int {
	return func(r []rune, i int) int {
		if i >= len(r) || r[i] != q {
			return 0
		}
		best := 0
		j := i + 1
		for j < len(r) {
			c := r[j]
			switch {
			case c == '\\':
				if j+1 >= len(r) {
					return best
				}
				j += 2
			case c == q:
				best = j + 1 - i // this quote may close the literal
				if j+1 < len(r) && r[j+1] == q {
					j += 2 // doubled quote continues the literal
				} else {
					return best
				}
			default:
				j++
			}
		}
		return best
	}
}

// exponent matches [marker] (+|-)? DEC_DIGITS
func matchExp(r []rune, i int, lower, upper rune) int {
	if i >= len(r) || (r[i] != lower && r[i] != upper) {
		return 0
	}
	j := i + 1
	if j < len(r) && (r[j] == '+' || r[j] == '-') {
		j++
	}
	d := run(r, j, isDec)
	if d == 0 {
		return 0
	}
	return j + d - i
}

// decLit matches DEC_LIT as used inside float rules: '0' | [1-9][0-9]*
func matchDecLit(r []rune, i int) int {
	if i >= len(r) || !isDec(r[i]) {
		return 0
	}
	if r[i] == '0' {
		return 1
	}
	return run(r, i, isDec)
}

func matchDecFloat(r []rune, i int) int {
	best := 0
	// '.' DEC_DIGITS EXP?
	if i < len(r) && r[i] == '.' {
		d := run(r, i+1, isDec)
		if d > 0 {
			n := 1 + d
			n += matchExp(r, i+n, 'e', 'E')
			if n > best {
				best = n
			}
		}
	}
	// DEC_LIT ('.' DEC_DIGITS EXP? | EXP). Inside a lexer rule DEC_LIT is an NFA fragment: for a
	// run starting with [1-9] every prefix is a DEC_LIT, but only the full run can be followed
	// by '.' or an exponent marker.
	dl := matchDecLit(r, i)
	if dl > 0 {
		j := i + dl
		if j < len(r) && r[j] == '.' {
			d := run(r, j+1, isDec)
			if d > 0 {
				n := dl + 1 + d
				n += matchExp(r, i+n, 'e', 'E')
				if n > best {
					best = n
				}
			}
		}
		if e := matchExp(r, j, 'e', 'E'); e > 0 {
			if dl+e > best {
				best = dl + e
			}
		}
	}
	return best
}

func matchHexFloat(r []rune, i int) int {
	if i+2 >= len(r) || r[i] != '0' || (r[i+1] != 'x' && r[i+1] != 'X') {
		return 0
	}
	j := i + 2
	h := run(r, j, isHex)
	best := 0
	try := func(mantEnd int) {
		if e := matchExp(r, mantEnd, 'p', 'P'); e > 0 {
			if mantEnd+e-i > best {
				best = mantEnd + e - i
			}
		}
	}
	if h > 0 {
		// H+ ; every prefix of the run is an H+, but the exponent marker 'p' is not a hex digit, so
		// only the full run can be followed by it
		try(j + h)
		if j+h < len(r) && r[j+h] == '.' {
			h2 := run(r, j+h+1, isHex)
			try(j + h + 1 + h2)
		}
	} else if j < len(r) && r[j] == '.' {
		h2 := run(r, j+1, isHex)
		if h2 > 0 {
			try(j + 1 + h2)
		}
	}
	return best
}

func matchDec(r []rune, i int) int { return matchDecLit(r, i) }

func matchHexLit(r []rune, i int) int {
	if i+2 >= len(r)+0 && i+2 > len(r) {
		return 0
	}
	if i+1 >= len(r) || r[i] != '0' || (r[i+1] != 'x' && r[i+1] != 'X') {
		return 0
	}
	h := run(r, i+2, isHex)
	if h == 0 {
		return 0
	}
	return 2 + h
}

func matchOctLit(r []rune, i int) int {
	if i >= len(r) || r[i] != '0' {
		return 0
	}
	o := run(r, i+1, isOct)
	if o == 0 {
		return 0
	}
	return 1 + o
}

func matchSpace(r []rune, i int) int {
	return run(r, i, func(c rune) bool { return c == ' ' || c == '\t' || c == '\r' || c == '\n' })
}

func matchComment(r []rune, i int) int {
	if i+1 >= len(r) || r[i] != '/' || r[i+1] != '*' {
		return 0
	}
	for j := i + 2; j+1 < len(r); j++ {
		if r[j] == '*' && r[j+1] == '/' {
			return j + 2 - i
		}
	}
	return 0
}

func matchLineComment(r []rune, i int) int {
	if i+1 >= len(r) || r[i] != '/' || r[i+1] != '/' {
		return 0
	}
	return 2 + run(r, i+2, func(c rune) bool { return c != '\r' && c != '\n' })
}

var rules = []rule{
	{COMMA, lit(",")},
	{PLUS, lit("+")}, {MINUS, lit("-")}, {DIV, lit("/")}, {MUL, lit("*")}, {MOD, lit("%")}, {DOT, lit(".")}, {SEMICOLON, lit(";")},
	{LBRACE, lit("{")}, {RBRACE, lit("}")}, {LPAREN, lit("(")}, {RPAREN, lit(")")}, {LBRACK, lit("[")}, {RBRACK, lit("]")},
	{RULE, kw("rule")}, {WHEN, kw("when")}, {THEN, kw("then")}, {AND, lit("&&")}, {OR, lit("||")},
	{TRUE, kw("true")}, {FALSE, kw("false")}, {NIL, kw("nil")}, {NEGATION, lit("!")}, {SALIENCE, kw("salience")},
	{EQUALS, lit("==")}, {ASSIGN, lit("=")}, {PLUS_ASSIGN, lit("+=")}, {MINUS_ASSIGN, lit("-=")}, {DIV_ASSIGN, lit("/=")}, {MUL_ASSIGN, lit("*=")},
	{GT, lit(">")}, {LT, lit("<")}, {GTE, lit(">=")}, {LTE, lit("<=")}, {NOTEQUALS, lit("!=")},
	{BITAND, lit("&")}, {BITOR, lit("|")},
	{SIMPLENAME, matchName},
	{DQ_STRING, matchString('"')}, {SQ_STRING, matchString('\'')},
	{DEC_FLOAT, matchDecFloat},
	{DEC_EXPONENT, func(r []rune, i int) int { return matchExp(r, i, 'e', 'E') }},
	{HEX_FLOAT, matchHexFloat},
	{HEX_EXPONENT, func(r []rune, i int) int { return matchExp(r, i, 'p', 'P') }},
	{DEC_LIT, matchDec}, {HEX_LIT, matchHexLit}, {OCT_LIT, matchOctLit},
	{SPACE, matchSpace}, {COMMENT, matchComment}, {LINE_COMMENT, matchLineComment},
}

// Lex tokenises the input the way the generated lexer does. all includes the skipped tokens.
// ok is false when some position matches no rule (a lexical error).
func Lex(input string, all bool) (toks []Token, ok bool) {
	r := []rune(input)
	ok = true
	i := 0
	for i < len(r) {
		bestLen, bestKind := 0, EOF
		for _, ru := range rules {
			if n := ru.match(r, i); n > bestLen {
				bestLen, bestKind = n, ru.k
			}
		}
		if bestLen == 0 {
			ok = false
			i++
			continue
		}
		if all || (bestKind != SPACE && bestKind != COMMENT && bestKind != LINE_COMMENT) {
			toks = append(toks, Token{K: bestKind, Text: string(r[i : i+bestLen]), Start: i, End: i + bestLen})
		}
		i += bestLen
	}
	return toks, ok
}
