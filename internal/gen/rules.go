package gen

import (
	"fmt"
	"os"
	"reflect"
	"strings"

	"pgregory.net/rapid"

	"verif/internal/gast"
)

// RuleSetCfg configures the rule-set generator.
type RuleSetCfg struct {
	State      StateCfg
	MinRules   int
	MaxRules   int
	MinHot     int
	MaxHot     int
	MaxActions int
	ExprDepth  int
	Retract    bool // Retract(name) actions (self, other, unknown)
	Complete   bool // Complete() actions at any position
	Forget     bool // hidden-state and poke patterns announced with Forget/Changed
	Probes     bool // counted probes in conditions
	Marks      bool // counted probe statements in actions
	// DistinctSalience draws pairwise distinct saliences (differential checks need a deterministic run).
	DistinctSalience bool
	// NoObjectReplace switches off the action that replaces a nested object as a whole.
	NoObjectReplace bool
	// NoTopWrites excludes assignments to top-level variables.
	NoTopWrites bool
	// OnlyForms restricts hot locations to the given addressing forms (nil = all).
	OnlyForms []string
	// SelfRetractAll makes every rule retract itself as its last action (order-independent runs).
	SelfRetractAll bool
	// NamePrefix is prepended to generated rule names.
	NamePrefix string
	// ConvWrites allows float-valued right-hand sides for integer destinations and vice versa.
	ConvWrites bool
}

// RuleSet is a generated rule set with the facts it talks about.
type RuleSet struct {
	Rules []*gast.Rule
	Hot   []PathInfo
	Feat  map[string]int
	// objBase gives every replaceable object its own range of constructor arguments, so that no two
	// destinations ever receive the same (remembered) constructor call
	objBase map[string]int
}

var salPool = []int64{0, 1, -1, 2, 5, 10, -10, 100, 2147483647, -2147483648, 7, 3}

var ruleNameParts = []string{"Alpha", "Beta", "Gamma", "Delta", "Eps", "Zeta", "Eta", "Theta", "Iota", "Kappa", "Lambda", "Mu", "Nu", "Xi", "Omi", "Pi", "Rho", "Sigma", "Tau", "Ups"}

// RuleNames draws n distinct rule names (the names also randomise the rules' position in the
// engine's map iteration).
func RuleNames(t *rapid.T, n int, prefix string) []string {
	names := make([]string, 0, n)
	used := map[string]bool{}
	for len(names) < n {
		var nm string
		if len(names) > 0 && rapid.IntRange(0, 3).Draw(t, "rname_derive") == 0 {
			// a name that has an existing name as prefix (Retract must match whole names), or that differs
			// from it in letter case only (rule names are case-sensitive)
			base := names[rapid.IntRange(0, len(names)-1).Draw(t, "rname_base")]
			suffixes := []string{"0", "x", "_", "1", "\x00lower", "\x00upper"}
			sf := suffixes[rapid.IntRange(0, len(suffixes)-1).Draw(t, "rname_suffix")]
			switch sf {
			case "\x00lower":
				nm = strings.ToLower(base)
			case "\x00upper":
				nm = strings.ToUpper(base)
			default:
				nm = base + sf
			}
		} else if prefix == "" && rapid.IntRange(0, 7).Draw(t, "rname_like_fact") == 0 {
			// a rule named like a fact of the data context (rule names and fact names are separate name spaces), or
			// like the engine's own bookkeeping names
			nm = []string{"F", "J", "N", "TS", "G", "Q", "Deleted_Items", "Deleted_", "DEFUNC"}[rapid.IntRange(0, 8).Draw(t, "rname_fact")]
		} else {
			a := ruleNameParts[rapid.IntRange(0, len(ruleNameParts)-1).Draw(t, "rname_a")]
			b := rapid.IntRange(0, 99).Draw(t, "rname_b")
			nm = fmt.Sprintf("%s%s%d", prefix, a, b)
		}
		if used[nm] {
			continue
		}
		used[nm] = true
		names = append(names, nm)
	}
	return names
}

func pickHot(t *rapid.T, c RuleSetCfg) []PathInfo {
	all := AllPaths(c.State)
	var pool []PathInfo
	for _, p := range all {
		if !p.Writable {
			continue
		}
		if c.NoTopWrites && p.Backend == "top" {
			continue
		}
		if len(c.OnlyForms) > 0 {
			ok := false
			for _, f := range c.OnlyForms {
				if f == p.Form {
					ok = true
				}
			}
			if !ok {
				continue
			}
		}
		pool = append(pool, p)
	}
	// group by form so that rare forms are as likely as plain fields
	forms := map[string][]PathInfo{}
	var formNames []string
	for _, p := range pool {
		if _, ok := forms[p.Form]; !ok {
			formNames = append(formNames, p.Form)
		}
		forms[p.Form] = append(forms[p.Form], p)
	}
	n := rapid.IntRange(c.MinHot, c.MaxHot).Draw(t, "nhot")
	var hot []PathInfo
	used := map[string]bool{}
	haveInt := false
	for tries := 0; len(hot) < n && tries < 50; tries++ {
		f := formNames[rapid.IntRange(0, len(formNames)-1).Draw(t, "hot_form")]
		ps := forms[f]
		p := ps[rapid.IntRange(0, len(ps)-1).Draw(t, "hot_path")]
		if used[p.Text] {
			continue
		}
		used[p.Text] = true
		hot = append(hot, p)
		if p.T == gast.TInt || p.T == gast.TFloat {
			haveInt = true
		}
	}
	if c.Forget && !used["F.I64"] {
		for _, p := range pool {
			if p.Text == "F.I64" {
				hot = append(hot, p)
				used[p.Text] = true
				haveInt = true
			}
		}
	}
	if !haveInt {
		// guarantee a numeric counter so that conditions have something to count on
		for _, p := range pool {
			if (p.T == gast.TInt || p.T == gast.TFloat) && !used[p.Text] {
				hot = append(hot, p)
				break
			}
		}
	}
	return hot
}

// GenRuleSet generates a rule set around a small set of hot locations that its conditions
// read and its actions write, so that runs are multi-cycle.
func GenRuleSet(t *rapid.T, c RuleSetCfg) *RuleSet {
	rs := &RuleSet{Feat: map[string]int{}}
	rs.Hot = pickHot(t, c)
	for _, h := range rs.Hot {
		rs.Feat["hot:"+h.Form]++
	}
	n := rapid.IntRange(c.MinRules, c.MaxRules).Draw(t, "nrules")
	names := RuleNames(t, n, c.NamePrefix)
	recv := "F"
	xc := ExprCfg{Paths: rs.Hot, Recv: recv, StrFuncs: true, SmallLits: true, Probes: c.Probes, ComputedIndex: true}
	xg := NewXG(t, xc)
	usedSal := map[int64]bool{}
	hiddenUsed := false
	for i := 0; i < n; i++ {
		r := &gast.Rule{Name: names[i]}
		// salience
		switch {
		case c.DistinctSalience:
			for {
				s := int64(rapid.IntRange(-50, 50).Draw(t, "sal_distinct"))
				if rapid.IntRange(0, 9).Draw(t, "sal_extreme") == 0 {
					s = []int64{2147483647, -2147483648, 2147483646}[rapid.IntRange(0, 2).Draw(t, "sal_ext_v")]
				}
				if !usedSal[s] {
					usedSal[s] = true
					sv := s
					r.Salience = &sv
					break
				}
			}
		default:
			if rapid.IntRange(0, 3).Draw(t, "sal_omit") != 0 {
				s := salPool[rapid.IntRange(0, len(salPool)-1).Draw(t, "sal")]
				r.Salience = &s
			}
		}
		if rapid.IntRange(0, 3).Draw(t, "desc") == 0 {
			d := []string{"a rule", "", "x > 1", "it's", "say \\\"hi\\\""}[rapid.IntRange(0, 4).Draw(t, "desc_v")]
			r.Desc = &d
			r.DescQ = '"'
		}
		// condition
		depth := rapid.IntRange(1, c.ExprDepth).Draw(t, "cond_depth")
		cond := xg.Bool(depth)
		if c.Forget && rapid.IntRange(0, 3).Draw(t, "hidden_cond") == 0 {
			hiddenUsed = true
			lim := gast.I(int64(rapid.IntRange(1, 6).Draw(t, "hidden_lim")))
			hc := &gast.Bin{Op: cmpOps[rapid.IntRange(0, 5).Draw(t, "hidden_op")], L: &gast.Frozen{X: &gast.Call{Recv: gast.P(recv), Name: "GetH"}}, R: lim}
			if rapid.Bool().Draw(t, "hidden_join") {
				cond = &gast.Bin{Op: gast.OpAnd, L: hc, R: cond}
			} else {
				cond = &gast.Bin{Op: gast.OpOr, L: cond, R: hc}
			}
			rs.Feat["hidden_condition"]++
		}
		// countdown pattern: a guard on a numeric hot location plus an action that moves the
		// location towards falsifying the guard, so that the rule's truth flips after a few firings
		var step gast.Stmt
		if rapid.IntRange(0, 9).Draw(t, "countdown") < 6 {
			var nums []PathInfo
			for _, h := range rs.Hot {
				if h.T == gast.TInt || h.T == gast.TFloat {
					nums = append(nums, h)
				}
			}
			if len(nums) > 0 {
				h := nums[rapid.IntRange(0, len(nums)-1).Draw(t, "countdown_loc")]
				var guard gast.Expr
				if rapid.Bool().Draw(t, "countdown_up") {
					guard = &gast.Bin{Op: gast.OpLT, L: h.Mk(), R: gast.I(int64(rapid.IntRange(1, 7).Draw(t, "countdown_lim")))}
					step = &gast.Assign{LHS: h.Mk(), Op: "+=", RHS: gast.I(1)}
				} else {
					guard = &gast.Bin{Op: gast.OpGT, L: h.Mk(), R: gast.I(0)}
					step = &gast.Assign{LHS: h.Mk(), Op: "-=", RHS: gast.I(1)}
				}
				switch rapid.IntRange(0, 2).Draw(t, "countdown_join") {
				case 0:
					cond = guard
				case 1:
					cond = &gast.Bin{Op: gast.OpAnd, L: guard, R: cond}
				default:
					cond = &gast.Bin{Op: gast.OpAnd, L: cond, R: guard}
				}
				rs.Feat["countdown"]++
			}
		}
		r.When = cond
		// actions
		na := rapid.IntRange(1, c.MaxActions).Draw(t, "nactions")
		stepAt := -1
		if step != nil {
			stepAt = rapid.IntRange(0, na-1).Draw(t, "countdown_pos")
		}
		for a := 0; a < na; a++ {
			if a == stepAt {
				r.Then = append(r.Then, step)
				continue
			}
			r.Then = append(r.Then, genAction(t, c, rs, xg, names, r.Name, hiddenUsed)...)
		}
		if c.SelfRetractAll {
			r.Then = append(r.Then, &gast.CallStmt{X: &gast.Call{Name: "Retract", Args: []gast.Expr{gast.S(r.Name)}}})
		}
		rs.Rules = append(rs.Rules, r)
	}
	for k, v := range xg.Feat {
		rs.Feat[k] += v
	}
	return rs
}

func forgetCall(t *rapid.T, text string) gast.Stmt {
	fn := "Forget"
	if rapid.IntRange(0, 2).Draw(t, "changed") == 0 {
		fn = "Changed"
	}
	return &gast.CallStmt{X: &gast.Call{Name: fn, Args: []gast.Expr{gast.S(text)}}}
}

// genAction returns one logical action (possibly several statements: a mutator call is always
// followed by the Forget calls that announce it).
func genAction(t *rapid.T, c RuleSetCfg, rs *RuleSet, xg *XG, names []string, self string, hiddenUsed bool) []gast.Stmt {
	type alt struct {
		name string
		w    int
	}
	alts := []alt{{"assign", 12}}
	if c.Retract {
		alts = append(alts, alt{"retract", 2})
	}
	if c.Complete {
		alts = append(alts, alt{"complete", 1})
	}
	if c.Forget {
		alts = append(alts, alt{"bumph", 2}, alt{"poke", 1})
	}
	if c.Marks {
		alts = append(alts, alt{"mark", 2})
	}
	// an object that hot locations live in is replaced as a whole (F.Sub = F.Mk(3)): every remembered
	// expression over its members has to be forgotten
	var objHot []PathInfo
	for _, h := range rs.Hot {
		switch h.Form {
		case "nestedptr", "sliceofptr", "mapofptr", "nestedslice":
			objHot = append(objHot, h)
		}
	}
	if len(objHot) > 0 && !c.NoObjectReplace {
		alts = append(alts, alt{"replace", 2})
	}
	total := 0
	for _, a := range alts {
		total += a.w
	}
	k := rapid.IntRange(0, total-1).Draw(t, "action_alt")
	name := ""
	for _, a := range alts {
		if k < a.w {
			name = a.name
			break
		}
		k -= a.w
	}
	switch name {
	case "replace":
		h := objHot[rapid.IntRange(0, len(objHot)-1).Draw(t, "replace_obj")]
		full := h.Mk()
		drop := 1
		if h.Form == "nestedslice" {
			drop = 2
		}
		obj := &gast.Path{Root: full.Root, Steps: append([]gast.Step{}, full.Steps[:len(full.Steps)-drop]...)}
		rs.Feat["object_replaced_as_a_whole:"+h.Form]++
		if rs.objBase == nil {
			rs.objBase = map[string]int{}
		}
		dst := gast.ExprString(obj)
		if _, ok := rs.objBase[dst]; !ok {
			rs.objBase[dst] = 10 * (len(rs.objBase) + 1)
		}
		// the constructor call is remembered like any other call: it is announced with Forget, so that
		// every execution of the statement makes a new object (and no two places share one)
		call := &gast.Call{Recv: gast.P("F"), Name: "Mk", Args: []gast.Expr{gast.I(int64(rs.objBase[dst] + rapid.IntRange(0, 3).Draw(t, "replace_with")))}}
		return []gast.Stmt{&gast.Assign{LHS: obj, Op: "=", RHS: &gast.Frozen{X: call}}, forgetCall(t, gast.CompactText(call))}
	case "retract":
		var target string
		switch rapid.IntRange(0, 5).Draw(t, "retract_kind") {
		case 0:
			target = "NoSuchRule"
			if rapid.Bool().Draw(t, "retract_unknown_near") {
				// an unknown name that is close to a known one: other letter case, a prefix, an extension
				base := names[rapid.IntRange(0, len(names)-1).Draw(t, "retract_near_base")]
				cands := []string{strings.ToLower(base), strings.ToUpper(base), base[:len(base)-1], base + "x", " " + base}
				isName := map[string]bool{}
				for _, n := range names {
					isName[n] = true
				}
				for _, c := range cands[rapid.IntRange(0, len(cands)-1).Draw(t, "retract_near_kind"):] {
					if c != "" && !isName[c] {
						target = c
						break
					}
				}
			}
			rs.Feat["retract_unknown"]++
		case 1, 2:
			target = self
			rs.Feat["retract_self"]++
		default:
			target = names[rapid.IntRange(0, len(names)-1).Draw(t, "retract_target")]
			rs.Feat["retract_other"]++
		}
		return []gast.Stmt{&gast.CallStmt{X: &gast.Call{Name: "Retract", Args: []gast.Expr{gast.S(target)}}}}
	case "complete":
		rs.Feat["complete"]++
		return []gast.Stmt{&gast.CallStmt{X: &gast.Call{Name: "Complete"}}}
	case "bumph":
		// hidden state changed by a method; announced by forgetting the reader (and the mutator
		// call itself, which is memoized like any other method call)
		rs.Feat["forget_hidden"]++
		call := &gast.Call{Recv: gast.P("F"), Name: "BumpH"}
		if rapid.Bool().Draw(t, "seth") {
			call = &gast.Call{Recv: gast.P("F"), Name: "SetH", Args: []gast.Expr{gast.I(int64(rapid.IntRange(0, 6).Draw(t, "seth_v")))}}
		}
		return []gast.Stmt{
			&gast.CallStmt{X: &gast.Frozen{X: call}},
			forgetCall(t, gast.CompactText(call)),
			forgetCall(t, "F.GetH()"),
		}
	case "poke":
		// an exported field changed from inside a method; announced by naming the variable
		rs.Feat["forget_variable"]++
		var arg gast.Expr = gast.I(int64(rapid.IntRange(0, 6).Draw(t, "poke_v")))
		if rapid.Bool().Draw(t, "poke_inc") {
			arg = &gast.Bin{Op: gast.OpAdd, L: gast.P("F", "I64"), R: gast.I(1)}
		}
		call := &gast.Call{Recv: gast.P("F"), Name: "PokeI64", Args: []gast.Expr{arg}}
		return []gast.Stmt{
			&gast.CallStmt{X: &gast.Frozen{X: call}},
			forgetCall(t, gast.CompactText(call)),
			forgetCall(t, "F.I64"),
		}
	case "mark":
		rs.Feat["mark"]++
		return []gast.Stmt{&gast.CallStmt{X: &gast.Call{Recv: gast.P("F"), Name: "Mark", Args: []gast.Expr{gast.I(int64(rapid.IntRange(0, 3).Draw(t, "mark_id")))}}}}
	}
	return []gast.Stmt{genAssign(t, c, rs, xg)}
}

func genAssign(t *rapid.T, c RuleSetCfg, rs *RuleSet, xg *XG) gast.Stmt {
	p := rs.Hot[rapid.IntRange(0, len(rs.Hot)-1).Draw(t, "assign_dst")]
	rs.Feat["write:"+p.Form]++
	depth := rapid.IntRange(0, 2).Draw(t, "rhs_depth")
	needExact := p.MapEntry || p.Backend == "top"
	switch p.T {
	case gast.TInt:
		ops := []string{"=", "=", "+=", "+=", "-=", "*="}
		if !needExact && c.ConvWrites {
			ops = append(ops, "/=")
		}
		op := ops[rapid.IntRange(0, len(ops)-1).Draw(t, "assign_op")]
		rs.Feat["assign:"+op]++
		if op == "/=" {
			// quotient is a float, stored with truncation into the integer destination
			rs.Feat["conv:float->int"]++
			return &gast.Assign{LHS: p.Mk(), Op: op, RHS: gast.I([]int64{1, 2, 3}[rapid.IntRange(0, 2).Draw(t, "div_by")])}
		}
		if !needExact && c.ConvWrites && op == "=" && rapid.IntRange(0, 4).Draw(t, "float_rhs") == 0 {
			rs.Feat["conv:float->int"]++
			e, _ := xg.Float(depth)
			return &gast.Assign{LHS: p.Mk(), Op: op, RHS: xg.NoBarePtr(e, true)}
		}
		e, inf := xg.Int(depth)
		e = xg.NoBarePtr(e, false)
		if len(xg.IntPool) > 0 && os.Getenv("VERIF_NO_SHARED") == "" && rapid.IntRange(0, 3).Draw(t, "shared_subexpr") == 0 {
			// repeat a computed sub-expression of an earlier condition or action verbatim
			e = gast.Clone(xg.IntPool[rapid.IntRange(0, len(xg.IntPool)-1).Draw(t, "shared_pick")])
			inf = IntInfo{Exact: true}
			rs.Feat["rhs_repeats_earlier_subexpression"]++
		}
		if op == "*=" {
			e = gast.I(int64(rapid.IntRange(0, 2).Draw(t, "mul_by")))
			inf = IntInfo{Exact: true}
		}
		if needExact && op == "=" {
			e = exactInt(e, inf)
		}
		if p.Kind != reflect.Int64 && p.Kind != reflect.Invalid {
			rs.Feat["conv:int->"+p.Kind.String()]++
		}
		return &gast.Assign{LHS: p.Mk(), Op: op, RHS: e}
	case gast.TFloat:
		ops := []string{"=", "=", "+=", "-=", "*=", "/="}
		op := ops[rapid.IntRange(0, len(ops)-1).Draw(t, "assign_op")]
		rs.Feat["assign:"+op]++
		if op == "/=" || op == "*=" {
			return &gast.Assign{LHS: p.Mk(), Op: op, RHS: gast.F([]float64{2, 0.5, 4}[rapid.IntRange(0, 2).Draw(t, "muldiv_by")])}
		}
		if p.MapEntry {
			// exactly float64 is required: compound forms yield float64 when the RHS is a float
			e, inf := xg.Float(depth)
			return &gast.Assign{LHS: p.Mk(), Op: op, RHS: exactFloat(e, inf)}
		}
		if p.Backend == "top" {
			e, inf := xg.Float(depth)
			return &gast.Assign{LHS: p.Mk(), Op: op, RHS: exactFloat(e, inf)}
		}
		if rapid.IntRange(0, 2).Draw(t, "int_rhs") == 0 {
			rs.Feat["conv:int->float"]++
			e, _ := xg.Int(depth)
			return &gast.Assign{LHS: p.Mk(), Op: op, RHS: xg.NoBarePtr(e, false)}
		}
		e, _ := xg.Float(depth)
		if len(xg.FloatPool) > 0 && os.Getenv("VERIF_NO_SHARED") == "" && rapid.IntRange(0, 3).Draw(t, "shared_subexpr") == 0 {
			e = gast.Clone(xg.FloatPool[rapid.IntRange(0, len(xg.FloatPool)-1).Draw(t, "shared_pick")])
			rs.Feat["rhs_repeats_earlier_subexpression"]++
		}
		return &gast.Assign{LHS: p.Mk(), Op: op, RHS: xg.NoBarePtr(e, true)}
	case gast.TStr:
		op := []string{"=", "+="}[rapid.IntRange(0, 1).Draw(t, "assign_op")]
		rs.Feat["assign:"+op]++
		if op == "+=" {
			// bounded growth: one character
			return &gast.Assign{LHS: p.Mk(), Op: op, RHS: gast.S([]string{"x", "a", "b", ""}[rapid.IntRange(0, 3).Draw(t, "append_v")])}
		}
		// linear growth only: the value is written back and read again on later firings
		saved := xg.C.LinearStr
		xg.C.LinearStr = true
		xg.ResetStrReads()
		e := xg.Str(depth)
		xg.C.LinearStr = saved
		xg.ResetStrReads()
		return &gast.Assign{LHS: p.Mk(), Op: op, RHS: e}
	case gast.TBool:
		rs.Feat["assign:="]++
		return &gast.Assign{LHS: p.Mk(), Op: "=", RHS: xg.Bool(depth)}
	case gast.TTime:
		rs.Feat["assign:="]++
		return &gast.Assign{LHS: p.Mk(), Op: "=", RHS: xg.Time(1)}
	}
	panic("unreachable")
}
