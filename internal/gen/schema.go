// Package gen holds the rapid generators: fact states, typed paths of the fact universe,
// type-directed expressions and rule sets. Every random choice goes through rapid.
package gen

import (
	"math"
	"reflect"
	"strings"
	"time"

	"pgregory.net/rapid"

	"verif/internal/facts"
	"verif/internal/gast"
)

// PathInfo describes one addressable location of the fact universe.
type PathInfo struct {
	Text      string // canonical GRL text
	Mk        func() *gast.Path
	T         gast.Type
	Kind      reflect.Kind // dynamic Go kind on read for typed numeric locations
	Loose     bool         // JSON numeric: dynamic kind varies (float64 from the document, int64 after integer writes)
	Writable  bool
	MapEntry  bool   // writes need exactly the element kind
	ArithOnly bool   // pointer to number: usable in arithmetic and comparisons only
	Backend   string // "go", "json", "top"
	Form      string // addressing form label for the evidence
	Unsigned  bool
}

func mk(root string, steps ...interface{}) func() *gast.Path {
	return func() *gast.Path {
		p := &gast.Path{Root: root}
		for _, s := range steps {
			switch x := s.(type) {
			case string:
				p.Steps = append(p.Steps, gast.Step{Field: x})
			case int:
				p.Steps = append(p.Steps, gast.Step{Index: gast.I(int64(x))})
			case gast.Expr:
				p.Steps = append(p.Steps, gast.Step{Index: x})
			}
		}
		return p
	}
}

func pinfo(m func() *gast.Path, t gast.Type, k reflect.Kind, form string) PathInfo {
	p := PathInfo{Mk: m, T: t, Kind: k, Writable: true, Backend: "go", Form: form}
	p.Text = gast.ExprString(m())
	switch k {
	case reflect.Uint, reflect.Uint8, reflect.Uint16, reflect.Uint32, reflect.Uint64:
		p.Unsigned = true
	}
	return p
}

// Shapes of the containers (fixed so that indices and keys are valid by construction).
const (
	ArrLen  = 3
	SubsLen = 2
	ROLen   = 4
)

var MapKeys = []string{"a", "b"}

// GoPaths lists the addressable locations of a Go fact registered under name.
func GoPaths(name string) []PathInfo {
	var ps []PathInfo
	add := func(p PathInfo) { ps = append(ps, p) }
	// plain struct fields of every numeric kind
	for _, f := range []struct {
		n string
		k reflect.Kind
	}{{"I8", reflect.Int8}, {"I16", reflect.Int16}, {"I32", reflect.Int32}, {"I64", reflect.Int64}, {"I", reflect.Int},
		{"U8", reflect.Uint8}, {"U16", reflect.Uint16}, {"U32", reflect.Uint32}, {"U64", reflect.Uint64}, {"U", reflect.Uint}} {
		add(pinfo(mk(name, f.n), gast.TInt, f.k, "field"))
	}
	add(pinfo(mk(name, "F32"), gast.TFloat, reflect.Float32, "field"))
	add(pinfo(mk(name, "F64"), gast.TFloat, reflect.Float64, "field"))
	add(pinfo(mk(name, "S"), gast.TStr, reflect.String, "field"))
	add(pinfo(mk(name, "S2"), gast.TStr, reflect.String, "field"))
	add(pinfo(mk(name, "B"), gast.TBool, reflect.Bool, "field"))
	add(pinfo(mk(name, "B2"), gast.TBool, reflect.Bool, "field"))
	add(pinfo(mk(name, "T"), gast.TTime, reflect.Struct, "field"))
	add(pinfo(mk(name, "T2"), gast.TTime, reflect.Struct, "field"))
	// embedded structs: shadowed and promoted fields (one spelling per location)
	add(pinfo(mk(name, "Base", "I64"), gast.TInt, reflect.Int64, "embedded"))
	add(pinfo(mk(name, "Base", "S"), gast.TStr, reflect.String, "embedded"))
	add(pinfo(mk(name, "Mid"), gast.TInt, reflect.Int64, "embedded"))
	add(pinfo(mk(name, "Base", "Core", "Mid"), gast.TInt, reflect.Int64, "embedded"))
	add(pinfo(mk(name, "Deep"), gast.TInt, reflect.Int64, "embedded"))
	// pointers to numbers
	pi := pinfo(mk(name, "PI"), gast.TInt, reflect.Int64, "ptrnum")
	pi.ArithOnly = true
	add(pi)
	pf := pinfo(mk(name, "PF"), gast.TFloat, reflect.Float64, "ptrnum")
	pf.ArithOnly = true
	add(pf)
	// nested: behind a pointer, in a value struct, behind an interface
	for _, via := range []struct{ f, form string }{{"Sub", "nestedptr"}, {"Val", "valstruct"}, {"Any", "iface"}} {
		add(pinfo(mk(name, via.f, "X"), gast.TInt, reflect.Int64, via.form))
		add(pinfo(mk(name, via.f, "Y"), gast.TFloat, reflect.Float64, via.form))
		add(pinfo(mk(name, via.f, "S"), gast.TStr, reflect.String, via.form))
		add(pinfo(mk(name, via.f, "B"), gast.TBool, reflect.Bool, via.form))
	}
	add(pinfo(mk(name, "Sub", "Arr", 0), gast.TInt, reflect.Int64, "nestedslice"))
	add(pinfo(mk(name, "Sub", "Arr", 1), gast.TInt, reflect.Int64, "nestedslice"))
	// slices
	for i := 0; i < ArrLen; i++ {
		add(pinfo(mk(name, "Arr", i), gast.TInt, reflect.Int64, "slice"))
		add(pinfo(mk(name, "Arr32", i), gast.TInt, reflect.Int32, "slice"))
		add(pinfo(mk(name, "FArr", i), gast.TFloat, reflect.Float64, "slice"))
		add(pinfo(mk(name, "SArr", i), gast.TStr, reflect.String, "slice"))
	}
	for i := 0; i < 2; i++ {
		add(pinfo(mk(name, "AU8", i), gast.TInt, reflect.Uint8, "slice"))
		add(pinfo(mk(name, "BArr", i), gast.TBool, reflect.Bool, "slice"))
	}
	for i := 0; i < SubsLen; i++ {
		add(pinfo(mk(name, "Subs", i, "X"), gast.TInt, reflect.Int64, "sliceofptr"))
		add(pinfo(mk(name, "Subs", i, "S"), gast.TStr, reflect.String, "sliceofptr"))
		add(pinfo(mk(name, "Subs", i, "B"), gast.TBool, reflect.Bool, "sliceofptr"))
	}
	// maps
	for _, k := range MapKeys {
		ks := gast.S(k)
		m := pinfo(mk(name, "M", gast.Expr(ks)), gast.TInt, reflect.Int64, "map")
		m.MapEntry = true
		add(m)
		m = pinfo(mk(name, "MF", gast.Expr(ks)), gast.TFloat, reflect.Float64, "map")
		m.MapEntry = true
		add(m)
		m = pinfo(mk(name, "MS", gast.Expr(ks)), gast.TStr, reflect.String, "map")
		m.MapEntry = true
		add(m)
		m = pinfo(mk(name, "MB", gast.Expr(ks)), gast.TBool, reflect.Bool, "map")
		m.MapEntry = true
		add(m)
		add(pinfo(mk(name, "MSub", gast.Expr(ks), "X"), gast.TInt, reflect.Int64, "mapofptr"))
		add(pinfo(mk(name, "MSub", gast.Expr(ks), "S"), gast.TStr, reflect.String, "mapofptr"))
	}
	for _, k := range []int64{1, 2} {
		m := pinfo(mk(name, "MI", gast.Expr(gast.I(k))), gast.TStr, reflect.String, "mapintkey")
		m.MapEntry = true
		add(m)
	}
	return ps
}

// ROPaths are read-only locations that may be read through a computed index.
func ROPaths(name string) []PathInfo {
	var ps []PathInfo
	for i := 0; i < ROLen; i++ {
		p := pinfo(mk(name, "RO", i), gast.TInt, reflect.Int64, "roslice")
		p.Writable = false
		ps = append(ps, p)
	}
	return ps
}

// JSONPaths lists the addressable members of the JSON fact registered under name.
func JSONPaths(name string) []PathInfo {
	var ps []PathInfo
	j := func(m func() *gast.Path, t gast.Type, form string) {
		p := PathInfo{Mk: m, T: t, Writable: true, Backend: "json", Form: form}
		p.Text = gast.ExprString(m())
		if t == gast.TFloat {
			p.Loose = true
			p.Kind = reflect.Float64
		}
		ps = append(ps, p)
	}
	j(mk(name, "n"), gast.TFloat, "jsonmember")
	j(mk(name, "f"), gast.TFloat, "jsonmember")
	j(mk(name, "s"), gast.TStr, "jsonmember")
	j(mk(name, "b"), gast.TBool, "jsonmember")
	j(mk(name, "o", "x"), gast.TFloat, "jsonnested")
	j(mk(name, "o", "s"), gast.TStr, "jsonnested")
	j(mk(name, "o", "k", "z"), gast.TFloat, "jsonnested")
	for i := 0; i < ArrLen; i++ {
		j(mk(name, "arr", i), gast.TFloat, "jsonarray")
	}
	j(mk(name, "sarr", 0), gast.TStr, "jsonarray")
	j(mk(name, "sarr", 1), gast.TStr, "jsonarray")
	j(mk(name, "m", gast.Expr(gast.S("k1"))), gast.TFloat, "jsonselector")
	j(mk(name, "m", gast.Expr(gast.S("k2"))), gast.TStr, "jsonselector")
	return ps
}

// TopPaths lists the top-level data-context variables.
func TopPaths() []PathInfo {
	t := func(n string, ty gast.Type, k reflect.Kind) PathInfo {
		p := PathInfo{Mk: mk(n), T: ty, Kind: k, Writable: true, Backend: "top", Form: "toplevel"}
		p.Text = n
		return p
	}
	return []PathInfo{t("N", gast.TInt, reflect.Int64), t("N2", gast.TInt, reflect.Int64), t("Q", gast.TFloat, reflect.Float64),
		t("TS", gast.TStr, reflect.String), t("TB", gast.TBool, reflect.Bool)}
}

// ---------------------------------------------------------------------------------------------
// sources of choices

// Src supplies the choices of the state generators: either rapid draws (shrinkable) or a pure
// function of one drawn seed (cheap "don't care" background values).
type Src interface {
	IntRange(lo, hi int, label string) int
	Bool(label string) bool
}

// R adapts *rapid.T.
type R struct{ T *rapid.T }

// IntRange implements Src.
func (r R) IntRange(lo, hi int, label string) int { return rapid.IntRange(lo, hi).Draw(r.T, label) }

// Bool implements Src.
func (r R) Bool(label string) bool { return rapid.Bool().Draw(r.T, label) }

// Seeded is a deterministic source: a pure function of its seed (splitmix64).
type Seeded struct{ s uint64 }

// NewSeeded makes a deterministic source.
func NewSeeded(seed uint64) *Seeded { return &Seeded{s: seed*0x9E3779B97F4A7C15 + 0x1234567} }

func (r *Seeded) next() uint64 {
	r.s += 0x9E3779B97F4A7C15
	z := r.s
	z = (z ^ (z >> 30)) * 0xBF58476D1CE4E5B9
	z = (z ^ (z >> 27)) * 0x94D049BB133111EB
	return z ^ (z >> 31)
}

// IntRange implements Src.
func (r *Seeded) IntRange(lo, hi int, _ string) int {
	if hi <= lo {
		return lo
	}
	return lo + int(r.next()%uint64(hi-lo+1))
}

// Bool implements Src.
func (r *Seeded) Bool(string) bool { return r.next()&1 == 1 }

// ---------------------------------------------------------------------------------------------
// states

// Domain selects the value pools of a generated state.
type Domain int

const (
	Small    Domain = iota // small integers and short strings: rule sets flip often
	Boundary               // boundary-rich values (width limits, 2^53, fractions, hostile strings)
)

var smallStrings = []string{"", "a", "b", "ab", "abc", "x", "xy", "A", "hello", " a "}

// HostileStrings stress quoting, escaping and the snapshot syntax.
var HostileStrings = []string{"", "a", "\"", "'", "\\", "a\"b", "it's", "a\\b", "\n", "\t", "a,b", "(", ")", "[]", "->", "a->b", "é", "✓", "日本", "%d", "%s%v", "a b", " ", "//", "/*x*/", "\x00", "\x7f", "C(string->\"x\")", "true", "nil", "0x1", "a\")))),E(EA(A(C(string->\"b",
	// bytes that are not valid UTF-8: the printer renders them as \xNN escapes, which denote single bytes
	"\xff", "caf\xe9", "\xc3\x28", "a\x80b",
	// texts that read like operators (translations that work on text)
	" == ", "a != b", " && ",
	// characters U+0080..U+00FF next to characters that are written as escapes
	"Caf\u00e9 \"Zo\u00eb\"", "M\u00e1laga\nEspa\u00f1a", "25\u00b0C \\ 77\u00b0F", "a\u00a0b", "\u00ff\t",
	"first; second", ";", "a;"}

var smallFloats = []float64{0, 1, 2, 3, 0.5, 1.5, 2.5, -1, -0.5, 4, 0.25}

var boundaryInts = []int64{0, 1, -1, 2, 3, 7, 10, 100, -100, 127, -128, 255, 256, 32767, -32768, 65535, 1 << 20, -(1 << 20), math.MaxInt32, math.MinInt32, 1 << 40, 1 << 53, 1<<53 + 1}

var boundaryFloats = []float64{0, 1, -1, 0.5, -0.5, 1.5, 2.25, 0.1, 0.2, 0.3, 1e-7, 1.5e-7, 2e-7, 0.0000001, 0.0000002, 1e6, 1e9, 123456.789, 0.015625, 1e15, -1e15, 1 << 53, 3.0000001, 2.9999999, 100.125}

func smallInt(t Src, label string) int64 { return int64(t.IntRange(0, 6, label)) }

func genIntOfKind(t Src, k reflect.Kind, d Domain, label string) int64 {
	if d == Small {
		return smallInt(t, label)
	}
	v := boundaryInts[t.IntRange(0, len(boundaryInts)-1, label)]
	lo, hi := kindRange(k)
	if v < lo || v > hi {
		v = ((v % 100) + 100) % 100
	}
	return v
}

func kindRange(k reflect.Kind) (int64, int64) {
	switch k {
	case reflect.Int8:
		return math.MinInt8, math.MaxInt8
	case reflect.Int16:
		return math.MinInt16, math.MaxInt16
	case reflect.Int32:
		return math.MinInt32, math.MaxInt32
	case reflect.Uint8:
		return 0, math.MaxUint8
	case reflect.Uint16:
		return 0, math.MaxUint16
	case reflect.Uint32:
		return 0, math.MaxUint32
	case reflect.Uint, reflect.Uint64:
		return 0, math.MaxInt64
	}
	return math.MinInt64, math.MaxInt64
}

func genFloat(t Src, d Domain, label string) float64 {
	if d == Small {
		return smallFloats[t.IntRange(0, len(smallFloats)-1, label)]
	}
	return boundaryFloats[t.IntRange(0, len(boundaryFloats)-1, label)]
}

func genString(t Src, d Domain, label string) string {
	if d == Small {
		return smallStrings[t.IntRange(0, len(smallStrings)-1, label)]
	}
	if t.Bool(label + "_h") {
		return HostileStrings[t.IntRange(0, len(HostileStrings)-1, label)]
	}
	return smallStrings[t.IntRange(0, len(smallStrings)-1, label)]
}

var baseTime = time.Date(2024, 2, 29, 12, 30, 15, 0, time.UTC)

func genTime(t Src, label string) time.Time {
	off := []int64{0, 0, 1, -1, 60, 3600, -86400, 86400 * 365}[t.IntRange(0, len([]int64{0, 0, 1, -1, 60, 3600, -86400, 86400 * 365})-1, label)]
	tm := baseTime.Add(time.Duration(off) * time.Second)
	switch t.IntRange(0, 3, label+"_loc") {
	case 1:
		tm = tm.In(facts.ZoneEast)
	case 2:
		tm = tm.In(facts.ZoneWest)
	}
	return tm
}

func genSub(t Src, d Domain, label string) *facts.Sub {
	return &facts.Sub{
		X:   genIntOfKind(t, reflect.Int64, d, label+"X"),
		Y:   genFloat(t, d, label+"Y"),
		S:   genString(t, d, label+"S"),
		B:   t.Bool(label + "B"),
		Arr: []int64{genIntOfKind(t, reflect.Int64, d, label+"A0"), genIntOfKind(t, reflect.Int64, d, label+"A1")},
	}
}

// Fact generates one fact with every container populated (so generated paths are valid).
func Fact(t Src, d Domain, label string) *facts.Fact {
	f := &facts.Fact{}
	gi := func(k reflect.Kind, l string) int64 { return genIntOfKind(t, k, d, label+l) }
	f.I8 = int8(gi(reflect.Int8, "I8"))
	f.I16 = int16(gi(reflect.Int16, "I16"))
	f.I32 = int32(gi(reflect.Int32, "I32"))
	f.I64 = gi(reflect.Int64, "I64")
	f.I = int(gi(reflect.Int, "I"))
	f.U8 = uint8(gi(reflect.Uint8, "U8"))
	f.U16 = uint16(gi(reflect.Uint16, "U16"))
	f.U32 = uint32(gi(reflect.Uint32, "U32"))
	f.U64 = uint64(gi(reflect.Uint64, "U64"))
	f.U = uint(gi(reflect.Uint, "U"))
	f.F32 = float32(genFloat(t, d, label+"F32"))
	f.F64 = genFloat(t, d, label+"F64")
	f.S = genString(t, d, label+"S")
	f.S2 = genString(t, d, label+"S2")
	f.B = t.Bool(label + "B")
	f.B2 = t.Bool(label + "B2")
	f.T = genTime(t, label+"T")
	f.T2 = genTime(t, label+"T2")
	pi := gi(reflect.Int64, "PI")
	f.PI = &pi
	pf := genFloat(t, d, label+"PF")
	f.PF = &pf
	f.Sub = genSub(t, d, label+"Sub")
	f.Val = *genSub(t, d, label+"Val")
	f.Base.I64 = gi(reflect.Int64, "Base.I64")
	f.Base.S = genString(t, d, label+"Base.S")
	f.Base.Mid = gi(reflect.Int64, "Base.Mid")
	f.Base.Core.Mid = gi(reflect.Int64, "Base.Core.Mid")
	f.Base.Core.Deep = gi(reflect.Int64, "Base.Core.Deep")
	f.Any = genSub(t, d, label+"Any")
	f.Arr = make([]int64, ArrLen)
	f.Arr32 = make([]int32, ArrLen)
	f.FArr = make([]float64, ArrLen)
	f.SArr = make([]string, ArrLen)
	for i := 0; i < ArrLen; i++ {
		f.Arr[i] = gi(reflect.Int64, "Arr")
		f.Arr32[i] = int32(gi(reflect.Int32, "Arr32"))
		f.FArr[i] = genFloat(t, d, label+"FArr")
		f.SArr[i] = genString(t, d, label+"SArr")
	}
	f.AU8 = []uint8{uint8(gi(reflect.Uint8, "AU8")), uint8(gi(reflect.Uint8, "AU8"))}
	f.BArr = []bool{t.Bool(label + "BArr0"), t.Bool(label + "BArr1")}
	f.RO = make([]int64, ROLen)
	for i := range f.RO {
		f.RO[i] = gi(reflect.Int64, "RO")
	}
	f.SetWrapped()
	f.NB = facts.Switch(t.Bool(label + "NB"))
	f.ROM = map[string]int64{}
	for _, k := range MapKeys {
		f.ROM[k] = gi(reflect.Int64, "ROM")
	}
	f.Subs = make([]*facts.Sub, SubsLen)
	for i := range f.Subs {
		f.Subs[i] = genSub(t, d, label+"Subs")
	}
	f.M = map[string]int64{}
	f.MF = map[string]float64{}
	f.MS = map[string]string{}
	f.MB = map[string]bool{}
	f.MSub = map[string]*facts.Sub{}
	for _, k := range MapKeys {
		f.M[k] = gi(reflect.Int64, "M")
		f.MF[k] = genFloat(t, d, label+"MF")
		f.MS[k] = genString(t, d, label+"MS")
		f.MB[k] = t.Bool(label + "MB")
		f.MSub[k] = genSub(t, d, label+"MSub")
	}
	f.MI = map[int64]string{1: genString(t, d, label+"MI1"), 2: genString(t, d, label+"MI2")}
	f.H = gi(reflect.Int64, "H")
	return f
}

// JSONDoc generates the JSON fact (decoded form: numbers are float64).
func JSONDoc(t Src, d Domain, label string) map[string]interface{} {
	num := func(l string) interface{} {
		if d == Small {
			return float64(smallInt(t, label+l))
		}
		if t.Bool(label + l + "_i") {
			return float64([]int64{0, 1, -1, 2, 100, 255, 1 << 20}[t.IntRange(0, len([]int64{0, 1, -1, 2, 100, 255, 1 << 20})-1, label+l)])
		}
		return genFloat(t, d, label+l)
	}
	// a JSON document cannot carry bytes that are not valid UTF-8 (the encoder replaces them)
	str := func(l string) interface{} { return strings.ToValidUTF8(genString(t, d, label+l), "\uFFFD") }
	return map[string]interface{}{
		"n": num("n"), "f": num("f"), "s": str("s"), "b": t.Bool(label + "b"),
		"o":    map[string]interface{}{"x": num("ox"), "s": str("os"), "k": map[string]interface{}{"z": num("okz")}},
		"arr":  []interface{}{num("a0"), num("a1"), num("a2")},
		"sarr": []interface{}{str("s0"), str("s1")},
		"m":    map[string]interface{}{"k1": num("mk1"), "k2": str("mk2")},
	}
}

// StateCfg selects which backends a state has.
type StateCfg struct {
	D      Domain
	Second bool // a second Go fact "G"
	JSON   bool
	Top    bool
}

// State generates a full state.
func State(t Src, c StateCfg, label string) *facts.State {
	st := &facts.State{Go: map[string]*facts.Fact{}, JSON: map[string]interface{}{}, Top: map[string]interface{}{}}
	st.Go["F"] = Fact(t, c.D, label+"F.")
	if c.Second {
		st.Go["G"] = Fact(t, c.D, label+"G.")
	}
	if c.JSON {
		st.JSON["J"] = JSONDoc(t, c.D, label+"J.")
	}
	if c.Top {
		st.Top["N"] = genIntOfKind(t, reflect.Int64, c.D, label+"N")
		st.Top["N2"] = genIntOfKind(t, reflect.Int64, c.D, label+"N2")
		st.Top["Q"] = genFloat(t, c.D, label+"Q")
		st.Top["TS"] = genString(t, c.D, label+"TS")
		st.Top["TB"] = t.Bool(label + "TB")
	}
	return st
}

// AllPaths lists every addressable location of a state with the given configuration.
func AllPaths(c StateCfg) []PathInfo {
	ps := GoPaths("F")
	if c.Second {
		ps = append(ps, GoPaths("G")...)
	}
	if c.JSON {
		ps = append(ps, JSONPaths("J")...)
	}
	if c.Top {
		ps = append(ps, TopPaths()...)
	}
	return ps
}

// SeededState builds a state whose every value is a pure function of seed (cheap background
// values; the locations a case actually depends on are overridden by explicit draws).
func SeededState(seed uint64, c StateCfg) *facts.State {
	return State(NewSeeded(seed), c, "")
}

// DrawLiteralFor draws a literal suitable as the value of location p.
func DrawLiteralFor(t Src, p PathInfo, d Domain, label string) gast.Expr {
	switch p.T {
	case gast.TInt:
		return gast.I(genIntOfKind(t, p.Kind, d, label))
	case gast.TFloat:
		f := genFloat(t, d, label)
		if p.Kind == reflect.Float32 {
			f = float64(float32(f))
		}
		return gast.F(f)
	case gast.TStr:
		v := genString(t, d, label)
		if p.Backend == "json" {
			// a JSON document cannot carry bytes that are not valid UTF-8
			v = strings.ToValidUTF8(v, "\uFFFD")
		}
		return gast.S(v)
	case gast.TBool:
		return gast.B(t.Bool(label))
	}
	return nil
}
