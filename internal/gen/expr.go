package gen

import (
	"math"
	"reflect"

	"pgregory.net/rapid"

	"verif/internal/gast"
)

// ExprCfg configures the type-directed expression generator.
type ExprCfg struct {
	Paths         []PathInfo // readable locations
	MaxDepth      int
	Recv          string // Go fact used as method receiver; "" disables fact methods
	Probes        bool   // counted probes P / PB / PV
	FloatConcat   bool   // float operands in string concatenation (C05 only: undocumented format)
	Hostile       bool   // hostile string literals, boundary numbers
	Builtins      bool   // built-in functions (Max, Min, Abs, MakeTime, GetTime*, StringContains, IsZero)
	StrFuncs      bool   // string / array / map constant functions
	Hidden        bool   // F.GetH() (hidden state; only with the Forget discipline)
	ComputedIndex bool   // F.RO[<expr>] with an index expression that is in range by construction
	Chains        bool   // F.Mk(k).X style call chains
	MixedSign     bool   // comparisons aimed at a signed (negative) operand against an unsigned location
	NoPtrNum      bool   // exclude pointer-to-number reads
	SmallLits     bool   // literals from the small domain only
	// LinearStr keeps string values from growing faster than linearly over repeated firings:
	// at most one string location is read per generated string expression and the
	// multiplying functions (Repeat, Replace, Cat) are not used.
	LinearStr bool
}

// XG is an expression generator bound to a rapid test.
type XG struct {
	T *rapid.T
	C ExprCfg
	// Feature counters for the evidence.
	Feat map[string]int
	// strReads counts string locations read since the last ResetStrReads (LinearStr).
	strReads int
	// IntPool / FloatPool collect the computed (operator) sub-expressions generated so far, so that
	// later expressions - in particular right-hand sides of actions - can repeat one verbatim: the
	// working memory shares nodes with identical text between conditions and actions.
	IntPool   []gast.Expr
	FloatPool []gast.Expr
}

// ResetStrReads starts a new string expression for the LinearStr budget.
func (g *XG) ResetStrReads() { g.strReads = 0 }

func (g *XG) strPathAllowed() bool { return !g.C.LinearStr || g.strReads == 0 }

// NewXG makes a generator.
func NewXG(t *rapid.T, c ExprCfg) *XG { return &XG{T: t, C: c, Feat: map[string]int{}} }

func (g *XG) feat(s string) { g.Feat[s]++ }

func (g *XG) pick(n int, label string) int { return rapid.IntRange(0, n-1).Draw(g.T, label) }

func (g *XG) pathsOf(t gast.Type, pred func(PathInfo) bool) []PathInfo {
	var out []PathInfo
	for _, p := range g.C.Paths {
		if p.T != t {
			continue
		}
		if g.C.NoPtrNum && p.ArithOnly {
			continue
		}
		if pred != nil && !pred(p) {
			continue
		}
		out = append(out, p)
	}
	return out
}

// IntInfo describes a generated integer expression.
type IntInfo struct {
	Exact    bool // dynamic kind is exactly int64
	Unsigned bool // dynamic kind is unsigned
}

var smallIntLits = []int64{0, 1, 2, 3, 4, 5, -1, -2, 7, 10}
var hostileIntLits = []int64{0, 1, -1, 2, 3, 8, 9, 10, 63, 64, 100, 127, 128, 255, 256, 1000, 65535, 65536, 1 << 31, -(1 << 31), 1 << 32, 1 << 53, 1<<53 + 1, math.MaxInt64, math.MinInt64, -100, 07, 0x1F}

func (g *XG) intLit() *gast.Lit {
	if g.C.Hostile && !g.C.SmallLits && g.pick(3, "ilit_h") == 0 {
		return gast.I(hostileIntLits[g.pick(len(hostileIntLits), "ilit")])
	}
	return gast.I(smallIntLits[g.pick(len(smallIntLits), "ilit")])
}

var smallFloatLits = []float64{0.5, 1.5, 2.0, 0.25, 3.0, 1.0, 2.5, -0.5, 0.0, 10.0}
var hostileFloatLits = []float64{0.1, 0.2, 0.3, 1e-7, 1.5e-7, 0.0000001, 0.0000002, 123.456, 1e6, 1e15, 1.0000001, 0.9999999, 2.5e-3, 16777217.0, 1e-9, 3.14159, -2.75, 1 << 53}

func (g *XG) floatLit() *gast.Lit {
	if g.C.Hostile && !g.C.SmallLits && g.pick(3, "flit_h") == 0 {
		return gast.F(hostileFloatLits[g.pick(len(hostileFloatLits), "flit")])
	}
	return gast.F(smallFloatLits[g.pick(len(smallFloatLits), "flit")])
}

func (g *XG) strLit() *gast.Lit {
	if g.C.Hostile && !g.C.SmallLits && g.pick(2, "slit_h") == 0 {
		return gast.S(HostileStrings[g.pick(len(HostileStrings), "slit")])
	}
	return gast.S(smallStrings[g.pick(len(smallStrings), "slit")])
}

func (g *XG) recv() *gast.Path { return gast.P(g.C.Recv) }

// exactInt returns e if exact, otherwise (e + 0), which is int64 for every integer kind.
func exactInt(e gast.Expr, inf IntInfo) gast.Expr {
	if inf.Exact {
		return e
	}
	return &gast.Paren{X: &gast.Bin{Op: gast.OpAdd, L: e, R: gast.I(0)}}
}

// Int generates an integer expression.
func (g *XG) Int(depth int) (gast.Expr, IntInfo) {
	type alt struct {
		name string
		w    int
	}
	alts := []alt{{"lit", 3}}
	paths := g.pathsOf(gast.TInt, nil)
	if len(paths) > 0 {
		alts = append(alts, alt{"path", 6})
	}
	if depth > 0 {
		alts[0].w = 1
		if len(paths) > 0 {
			alts[1].w = 3
		}
		alts = append(alts, alt{"arith", 10})
		if g.C.Recv != "" {
			alts = append(alts, alt{"method", 2})
			if g.C.Probes {
				alts = append(alts, alt{"probe", 5})
			}
			if g.C.Hidden {
				alts = append(alts, alt{"hidden", 2})
			}
			if g.C.Chains {
				alts = append(alts, alt{"chain", 1})
			}
			if g.C.ComputedIndex {
				alts = append(alts, alt{"roindex", 1})
			}
		}
		if g.C.StrFuncs {
			alts = append(alts, alt{"strfunc", 2}, alt{"len", 1})
		}
		if g.C.Builtins {
			alts = append(alts, alt{"timepart", 1})
		}
	}
	total := 0
	for _, a := range alts {
		total += a.w
	}
	k := g.pick(total, "int_alt")
	name := ""
	for _, a := range alts {
		if k < a.w {
			name = a.name
			break
		}
		k -= a.w
	}
	switch name {
	case "lit":
		return g.intLit(), IntInfo{Exact: true}
	case "path":
		p := paths[g.pick(len(paths), "int_path")]
		g.feat("read:" + p.Form)
		return p.Mk(), IntInfo{Exact: p.Kind == reflect.Int64 && !p.ArithOnly, Unsigned: p.Unsigned}
	case "arith":
		ops := []gast.Op{gast.OpAdd, gast.OpAdd, gast.OpSub, gast.OpSub, gast.OpMul, gast.OpMod, gast.OpBAnd, gast.OpBOr}
		op := ops[g.pick(len(ops), "int_op")]
		l, li := g.Int(depth - 1)
		var r gast.Expr
		var ri IntInfo
		if op == gast.OpMod {
			r = gast.I([]int64{1, 2, 3, 5, 7, -2, 10}[g.pick(7, "mod_rhs")])
			ri = IntInfo{Exact: true}
		} else {
			r, ri = g.Int(depth - 1)
		}
		if op == gast.OpSub && li.Unsigned && ri.Unsigned {
			// unsigned - unsigned wraps below zero: keep the operation in the signed domain
			r = exactInt(r, IntInfo{})
			ri = IntInfo{Exact: true}
		}
		g.feat("op:" + string(op))
		res := IntInfo{}
		if op == gast.OpMod {
			res.Exact = true
		} else if li.Unsigned && ri.Unsigned {
			res.Unsigned = true
		} else {
			res.Exact = true
		}
		node := &gast.Bin{Op: op, L: l, R: r}
		if res.Exact && len(g.IntPool) < 32 {
			g.IntPool = append(g.IntPool, node)
		}
		return node, res
	case "method":
		g.feat("method")
		switch g.pick(4, "int_method") {
		case 3:
			// a value-receiver method of the nested object type, reached as a struct value, through a pointer,
			// through a slice of pointers or on a call result
			g.feat("value_receiver_method")
			recvs := []gast.Expr{gast.P(g.C.Recv, "Val"), gast.P(g.C.Recv, "Sub"), gast.P(g.C.Recv, "Subs").At(gast.I(int64(g.pick(SubsLen, "vm_idx"))))}
			if g.C.Chains {
				recvs = append(recvs, &gast.Call{Recv: g.recv(), Name: "Mk", Args: []gast.Expr{gast.I(int64(g.pick(5, "mk_arg")))}})
			}
			rc := recvs[g.pick(len(recvs), "vm_recv")]
			if g.pick(2, "vm_which") == 0 {
				return &gast.Call{Recv: rc, Name: "VSeven"}, IntInfo{Exact: true}
			}
			a, ai := g.Int(depth - 1)
			return &gast.Call{Recv: rc, Name: "VTwice", Args: []gast.Expr{exactInt(a, ai)}}, IntInfo{Exact: true}
		case 0:
			a, ai := g.Int(depth - 1)
			b, bi := g.Int(depth - 1)
			return &gast.Call{Recv: g.recv(), Name: "Add64", Args: []gast.Expr{exactInt(a, ai), exactInt(b, bi)}}, IntInfo{Exact: true}
		case 1:
			n := g.pick(4, "sum_n")
			args := make([]gast.Expr, n)
			for i := range args {
				a, ai := g.Int(depth - 1)
				args[i] = exactInt(a, ai)
			}
			g.feat("variadic")
			return &gast.Call{Recv: g.recv(), Name: "Sum", Args: args}, IntInfo{Exact: true}
		default:
			args := make([]gast.Expr, 3)
			for i := range args {
				a, ai := g.Int(depth - 1)
				args[i] = exactInt(a, ai)
			}
			return &gast.Call{Recv: g.recv(), Name: "Sub3", Args: args}, IntInfo{Exact: true}
		}
	case "probe":
		g.feat("probe")
		id := gast.I(int64(g.pick(4, "probe_id")))
		if g.pick(2, "probe_kind") == 0 {
			return &gast.Call{Recv: g.recv(), Name: "P", Args: []gast.Expr{id}}, IntInfo{Exact: true}
		}
		a, ai := g.Int(0)
		return &gast.Call{Recv: g.recv(), Name: "PV", Args: []gast.Expr{id, exactInt(a, ai)}}, IntInfo{Exact: true}
	case "hidden":
		g.feat("hidden")
		return &gast.Call{Recv: g.recv(), Name: "GetH"}, IntInfo{Exact: true}
	case "chain":
		g.feat("chain")
		var k gast.Expr = gast.I(int64(g.pick(5, "mk_arg")))
		if g.pick(3, "mk_arg_computed") == 0 {
			// the call's argument reads the facts: the call result changes when they do
			a, ai := g.Int(depth - 1)
			k = exactInt(a, ai)
			g.feat("chain_on_call_with_computed_argument")
		}
		mkc := &gast.Call{Recv: g.recv(), Name: "Mk", Args: []gast.Expr{k}}
		switch g.pick(3, "chain_kind") {
		case 0:
			return &gast.Member{X: mkc, Field: "X"}, IntInfo{Exact: true}
		case 1:
			return &gast.Index{X: &gast.Member{X: mkc, Field: "Arr"}, Idx: gast.I(int64(g.pick(3, "chain_idx")))}, IntInfo{Exact: true}
		default:
			a, ai := g.Int(0)
			return &gast.Call{Recv: mkc, Name: "Twice", Args: []gast.Expr{exactInt(a, ai)}}, IntInfo{Exact: true}
		}
	case "roindex":
		g.feat("computed_index")
		// (e % ROLen + ROLen) % ROLen is always a valid index
		e, _ := g.Int(depth - 1)
		idx := &gast.Bin{Op: gast.OpMod, L: &gast.Bin{Op: gast.OpAdd, L: &gast.Bin{Op: gast.OpMod, L: e, R: gast.I(ROLen)}, R: gast.I(ROLen)}, R: gast.I(ROLen)}
		return gast.P(g.C.Recv, "RO").At(idx), IntInfo{Exact: true}
	case "strfunc":
		g.feat("strfunc")
		s := g.strAtom(depth - 1)
		switch g.pick(6, "int_strfunc") {
		case 0:
			return &gast.Call{Recv: s, Name: "Len"}, IntInfo{}
		case 1:
			return &gast.Call{Recv: s, Name: "Count", Args: []gast.Expr{g.nonEmptyStrLit()}}, IntInfo{}
		case 2:
			return &gast.Call{Recv: s, Name: "Index", Args: []gast.Expr{g.Str(0)}}, IntInfo{}
		case 3:
			return &gast.Call{Recv: s, Name: "LastIndex", Args: []gast.Expr{g.Str(0)}}, IntInfo{}
		case 4:
			return &gast.Call{Recv: &gast.Call{Recv: s, Name: "Split", Args: []gast.Expr{g.nonEmptyStrLit()}}, Name: "Len"}, IntInfo{}
		default:
			return &gast.Call{Recv: s, Name: "Compare", Args: []gast.Expr{g.Str(0)}}, IntInfo{}
		}
	case "len":
		g.feat("containerlen")
		if g.C.Recv == "" {
			return g.intLit(), IntInfo{Exact: true}
		}
		f := []string{"Arr", "SArr", "M", "MS", "Subs", "RO"}[g.pick(6, "len_of")]
		return &gast.Call{Recv: gast.P(g.C.Recv, f), Name: "Len"}, IntInfo{}
	case "timepart":
		g.feat("builtin")
		fn := []string{"GetTimeYear", "GetTimeMonth", "GetTimeDay", "GetTimeHour", "GetTimeMinute", "GetTimeSecond"}[g.pick(6, "timepart")]
		return &gast.Call{Name: fn, Args: []gast.Expr{g.Time(depth - 1)}}, IntInfo{}
	}
	return g.intLit(), IntInfo{Exact: true}
}

func (g *XG) nonEmptyStrLit() *gast.Lit {
	return gast.S([]string{"a", "b", "ab", "x", " "}[g.pick(5, "nes")])
}

// FloatInfo describes a generated float expression.
type FloatInfo struct {
	Exact bool // dynamic kind is exactly float64
}

func exactFloat(e gast.Expr, inf FloatInfo) gast.Expr {
	if inf.Exact {
		return e
	}
	return &gast.Paren{X: &gast.Bin{Op: gast.OpAdd, L: e, R: gast.F(0)}}
}

// Float generates a float expression.
func (g *XG) Float(depth int) (gast.Expr, FloatInfo) {
	type alt struct {
		name string
		w    int
	}
	alts := []alt{{"lit", 3}}
	paths := g.pathsOf(gast.TFloat, nil)
	if len(paths) > 0 {
		alts = append(alts, alt{"path", 6})
	}
	if depth > 0 {
		alts[0].w = 1
		if len(paths) > 0 {
			alts[1].w = 3
		}
		alts = append(alts, alt{"arith", 9}, alt{"div", 3})
		if g.C.Recv != "" {
			alts = append(alts, alt{"method", 1})
			if g.C.Chains {
				alts = append(alts, alt{"chain", 1})
			}
		}
		if g.C.Builtins {
			alts = append(alts, alt{"builtin", 2})
		}
	}
	total := 0
	for _, a := range alts {
		total += a.w
	}
	k := g.pick(total, "flt_alt")
	name := ""
	for _, a := range alts {
		if k < a.w {
			name = a.name
			break
		}
		k -= a.w
	}
	switch name {
	case "lit":
		return g.floatLit(), FloatInfo{Exact: true}
	case "path":
		p := paths[g.pick(len(paths), "flt_path")]
		g.feat("read:" + p.Form)
		return p.Mk(), FloatInfo{Exact: p.Kind == reflect.Float64 && !p.Loose && !p.ArithOnly}
	case "arith":
		ops := []gast.Op{gast.OpAdd, gast.OpSub, gast.OpMul}
		op := ops[g.pick(len(ops), "flt_op")]
		l, _ := g.Float(depth - 1)
		var r gast.Expr
		if g.pick(3, "flt_mixed") == 0 {
			r, _ = g.Int(depth - 1) // int-to-float promotion
			g.feat("promotion")
		} else {
			r, _ = g.Float(depth - 1)
		}
		if g.pick(2, "flt_swap") == 0 {
			l, r = r, l
		}
		g.feat("op:" + string(op))
		fnode := &gast.Bin{Op: op, L: l, R: r}
		if len(g.FloatPool) < 32 {
			g.FloatPool = append(g.FloatPool, fnode)
		}
		return fnode, FloatInfo{Exact: true}
	case "div":
		var l gast.Expr
		if g.pick(2, "div_lhs") == 0 {
			l, _ = g.Int(depth - 1)
			g.feat("intdiv")
		} else {
			l, _ = g.Float(depth - 1)
		}
		var r gast.Expr
		if g.pick(2, "div_rhs") == 0 {
			r = gast.I([]int64{1, 2, 4, -2, 3, 8, 10}[g.pick(7, "div_ri")])
		} else {
			r = gast.F([]float64{0.5, 2.0, 4.0, -2.0, 0.25, 1.5}[g.pick(6, "div_rf")])
		}
		g.feat("op:/")
		return &gast.Bin{Op: gast.OpDiv, L: l, R: r}, FloatInfo{Exact: true}
	case "method":
		g.feat("method")
		a, ai := g.Float(depth - 1)
		return &gast.Call{Recv: g.recv(), Name: "Half", Args: []gast.Expr{exactFloat(a, ai)}}, FloatInfo{Exact: true}
	case "chain":
		g.feat("chain")
		return &gast.Member{X: &gast.Call{Recv: g.recv(), Name: "Mk", Args: []gast.Expr{gast.I(int64(g.pick(5, "mk_arg")))}}, Field: "Y"}, FloatInfo{Exact: true}
	case "builtin":
		g.feat("builtin")
		switch g.pick(3, "flt_builtin") {
		case 0:
			n := 1 + g.pick(3, "max_n")
			args := make([]gast.Expr, n)
			for i := range args {
				a, ai := g.Float(depth - 1)
				args[i] = exactFloat(a, ai)
			}
			g.feat("variadic")
			return &gast.Call{Name: []string{"Max", "Min"}[g.pick(2, "maxmin")], Args: args}, FloatInfo{Exact: true}
		default:
			a, ai := g.Float(depth - 1)
			return &gast.Call{Name: []string{"Abs", "Floor", "Ceil", "Round", "Trunc"}[g.pick(5, "flt_fn")], Args: []gast.Expr{exactFloat(a, ai)}}, FloatInfo{Exact: true}
		}
	}
	return g.floatLit(), FloatInfo{Exact: true}
}

// strAtom generates a string-valued atom (usable as a method receiver).
func (g *XG) strAtom(depth int) gast.Expr {
	paths := g.pathsOf(gast.TStr, nil)
	if !g.strPathAllowed() {
		paths = nil
	}
	n := 2
	if len(paths) > 0 {
		n = 5
	}
	k := g.pick(n, "stratom")
	switch {
	case k >= 2:
		p := paths[g.pick(len(paths), "str_path")]
		g.feat("read:" + p.Form)
		g.strReads++
		return p.Mk()
	case k == 1 && depth > 0 && g.C.StrFuncs:
		inner := g.strAtom(depth - 1)
		nfn := 3
		if g.C.LinearStr {
			nfn = 2
		}
		switch g.pick(nfn, "str_chainfn") {
		case 0:
			return &gast.Call{Recv: inner, Name: "ToUpper"}
		case 1:
			return &gast.Call{Recv: inner, Name: "Trim"}
		default:
			return &gast.Call{Recv: inner, Name: "Replace", Args: []gast.Expr{g.nonEmptyStrLit(), g.strLit()}}
		}
	}
	g.feat("constreceiver")
	return g.strLit()
}

// Str generates a string expression.
func (g *XG) Str(depth int) gast.Expr {
	type alt struct {
		name string
		w    int
	}
	alts := []alt{{"lit", 3}}
	paths := g.pathsOf(gast.TStr, nil)
	if !g.strPathAllowed() {
		paths = nil
	}
	if len(paths) > 0 {
		alts = append(alts, alt{"path", 5})
	}
	if depth > 0 {
		alts[0].w = 1
		if len(paths) > 0 {
			alts[1].w = 2
		}
		alts = append(alts, alt{"concat", 8})
		if g.C.StrFuncs {
			alts = append(alts, alt{"func", 3})
		}
		if g.C.Recv != "" && !g.C.LinearStr {
			alts = append(alts, alt{"cat", 1})
			if g.C.Chains {
				alts = append(alts, alt{"chain", 1})
			}
		}
	}
	total := 0
	for _, a := range alts {
		total += a.w
	}
	k := g.pick(total, "str_alt")
	name := ""
	for _, a := range alts {
		if k < a.w {
			name = a.name
			break
		}
		k -= a.w
	}
	switch name {
	case "lit":
		return g.strLit()
	case "path":
		p := paths[g.pick(len(paths), "str_path")]
		g.feat("read:" + p.Form)
		g.strReads++
		return p.Mk()
	case "concat":
		g.feat("concat")
		l := g.Str(depth - 1)
		var r gast.Expr
		n := 4
		if g.C.FloatConcat {
			n = 5
		}
		switch g.pick(n, "concat_rhs") {
		case 0, 1:
			r = g.Str(depth - 1)
		case 2:
			r, _ = g.Int(depth - 1)
			g.feat("concat_int")
			if _, isBin := r.(*gast.Bin); isBin {
				r = &gast.Paren{X: r}
			}
		case 3:
			// a boolean is only accepted on the right of a string (observed and used by the docs' examples)
			r = g.boolAtom()
			g.feat("concat_bool")
			return &gast.Bin{Op: gast.OpAdd, L: l, R: r}
		case 4:
			r, _ = g.Float(0)
			g.feat("concat_float")
		}
		if g.pick(3, "concat_swap") == 0 {
			l, r = r, l
		}
		// keep nested + groups explicit on the right so the tree is what is printed
		return &gast.Bin{Op: gast.OpAdd, L: l, R: r}
	case "func":
		g.feat("strfunc")
		s := g.strAtom(depth - 1)
		nfn := 5
		if g.C.LinearStr {
			nfn = 3
		}
		switch g.pick(nfn, "str_func") {
		case 0:
			return &gast.Call{Recv: s, Name: "ToUpper"}
		case 1:
			return &gast.Call{Recv: s, Name: "ToLower"}
		case 2:
			return &gast.Call{Recv: s, Name: "Trim"}
		case 3:
			return &gast.Call{Recv: s, Name: "Replace", Args: []gast.Expr{g.nonEmptyStrLit(), g.Str(0)}}
		default:
			return &gast.Call{Recv: s, Name: "Repeat", Args: []gast.Expr{gast.I(int64(g.pick(4, "repeat_n")))}}
		}
	case "cat":
		g.feat("method")
		g.feat("variadic")
		n := g.pick(4, "cat_n")
		args := []gast.Expr{g.strLit()}
		for i := 0; i < n; i++ {
			args = append(args, g.Str(depth-1))
		}
		return &gast.Call{Recv: g.recv(), Name: "Cat", Args: args}
	case "chain":
		g.feat("chain")
		return &gast.Member{X: &gast.Call{Recv: g.recv(), Name: "Mk", Args: []gast.Expr{gast.I(int64(g.pick(5, "mk_arg")))}}, Field: "S"}
	}
	return g.strLit()
}

func (g *XG) boolAtom() gast.Expr {
	paths := g.pathsOf(gast.TBool, nil)
	if len(paths) > 0 && g.pick(3, "boolatom") > 0 {
		p := paths[g.pick(len(paths), "bool_path")]
		g.feat("read:" + p.Form)
		return p.Mk()
	}
	return gast.B(g.pick(2, "blit") == 0)
}

// Time generates a time expression.
func (g *XG) Time(depth int) gast.Expr {
	paths := g.pathsOf(gast.TTime, nil)
	if depth > 0 && g.C.Recv != "" && g.pick(4, "time_later") == 0 {
		g.feat("method")
		secs := gast.I([]int64{0, 1, -1, 60, 3600, 86400}[g.pick(6, "later_s")])
		return &gast.Call{Recv: g.recv(), Name: "Later", Args: []gast.Expr{g.Time(depth - 1), secs}}
	}
	if g.C.Builtins && (len(paths) == 0 || g.pick(4, "time_mk") == 0) {
		g.feat("builtin")
		return &gast.Call{Name: "MakeTime", Args: []gast.Expr{gast.I(int64(2020 + g.pick(6, "mt_y"))), gast.I(int64(1 + g.pick(12, "mt_m"))),
			gast.I(int64(1 + g.pick(28, "mt_d"))), gast.I(int64(g.pick(24, "mt_h"))), gast.I(int64(g.pick(60, "mt_mi"))), gast.I(int64(g.pick(60, "mt_s")))}}
	}
	if len(paths) == 0 {
		return &gast.Call{Name: "MakeTime", Args: []gast.Expr{gast.I(2024), gast.I(2), gast.I(29), gast.I(12), gast.I(30), gast.I(15)}}
	}
	p := paths[g.pick(len(paths), "time_path")]
	g.feat("read:" + p.Form)
	return p.Mk()
}

var cmpOps = []gast.Op{gast.OpLT, gast.OpGT, gast.OpLTE, gast.OpGTE, gast.OpEq, gast.OpNEq}

// Bool generates a boolean expression.
func (g *XG) Bool(depth int) gast.Expr {
	type alt struct {
		name string
		w    int
	}
	alts := []alt{{"atom", 2}}
	if depth > 0 {
		alts[0].w = 1
		alts = append(alts, alt{"cmpint", 6}, alt{"cmpfloat", 3}, alt{"cmpstr", 2}, alt{"logic", 5}, alt{"not", 2}, alt{"booleq", 1}, alt{"plain_and_negated", 1}, alt{"cmp_adjacent_big", 1})
		if g.C.MixedSign {
			alts = append(alts, alt{"cmp_mixed_sign", 1})
		}
		if len(g.pathsOf(gast.TTime, nil)) > 0 || g.C.Builtins {
			alts = append(alts, alt{"cmptime", 1})
		}
		if g.C.StrFuncs {
			alts = append(alts, alt{"strpred", 2})
		}
		if g.C.Recv != "" {
			alts = append(alts, alt{"method", 1})
			if g.C.Probes {
				alts = append(alts, alt{"probe", 4})
			}
		}
		if g.C.Builtins {
			alts = append(alts, alt{"builtin", 1})
		}
	}
	total := 0
	for _, a := range alts {
		total += a.w
	}
	k := g.pick(total, "bool_alt")
	name := ""
	for _, a := range alts {
		if k < a.w {
			name = a.name
			break
		}
		k -= a.w
	}
	switch name {
	case "atom":
		return g.boolAtom()
	case "cmpint":
		l, _ := g.Int(depth - 1)
		r, _ := g.Int(depth - 1)
		op := cmpOps[g.pick(6, "cmp_op")]
		g.feat("op:" + string(op))
		return &gast.Bin{Op: op, L: l, R: r}
	case "cmpfloat":
		l, _ := g.Float(depth - 1)
		var r gast.Expr
		if g.pick(3, "cmpf_mixed") == 0 {
			r, _ = g.Int(depth - 1)
			g.feat("promotion")
		} else {
			r, _ = g.Float(depth - 1)
		}
		if g.pick(2, "cmpf_swap") == 0 {
			l, r = r, l
		}
		op := cmpOps[g.pick(6, "cmp_op")]
		g.feat("op:" + string(op))
		return &gast.Bin{Op: op, L: l, R: r}
	case "cmpstr":
		saved := g.C.FloatConcat
		g.C.FloatConcat = false // a float-rendered string must not be compared (format undocumented)
		l := g.Str(depth - 1)
		r := g.Str(depth - 1)
		g.C.FloatConcat = saved
		op := cmpOps[g.pick(6, "cmp_op")]
		g.feat("op:" + string(op))
		g.feat("cmpstr")
		return &gast.Bin{Op: op, L: l, R: r}
	case "cmptime":
		op := cmpOps[g.pick(6, "cmp_op")]
		g.feat("cmptime")
		return &gast.Bin{Op: op, L: g.Time(depth - 1), R: g.Time(depth - 1)}
	case "logic":
		op := []gast.Op{gast.OpAnd, gast.OpOr}[g.pick(2, "logic_op")]
		g.feat("op:" + string(op))
		return &gast.Bin{Op: op, L: g.Bool(depth - 1), R: g.Bool(depth - 1)}
	case "not":
		g.feat("not")
		return &gast.Not{X: g.Bool(depth - 1)}
	case "cmp_mixed_sign":
		// a signed operand (a negative literal or a signed location) against an unsigned location
		var us, ss []PathInfo
		for _, p := range g.pathsOf(gast.TInt, nil) {
			switch {
			case p.ArithOnly:
			case p.Unsigned:
				us = append(us, p)
			default:
				ss = append(ss, p)
			}
		}
		if len(us) == 0 {
			return g.boolAtom()
		}
		var l gast.Expr = gast.I(-int64(g.pick(3, "ms_negative")) - 1)
		if len(ss) > 0 && g.pick(2, "ms_signed_location") == 0 {
			l = ss[g.pick(len(ss), "ms_signed")].Mk()
		}
		var r gast.Expr = us[g.pick(len(us), "ms_unsigned")].Mk()
		op := cmpOps[g.pick(6, "cmp_op")]
		g.feat("signed_against_unsigned")
		if g.pick(2, "ms_swap") == 0 {
			l, r = r, l
		}
		return &gast.Bin{Op: op, L: l, R: r}
	case "cmp_adjacent_big":
		// two integers beyond 2^53 that are equal or differ by one (exact 64-bit comparison)
		base := []int64{1 << 53, 1<<53 + 1, 1 << 62, 9223372036854775806, -(1 << 53) - 1, -9223372036854775807}[g.pick(6, "big_base")]
		d := int64(g.pick(3, "big_delta")) - 1
		if (base > 0 && d > 0 && base >= 9223372036854775806) || (base < 0 && d < 0 && base <= -9223372036854775807) {
			d = 0
		}
		op := cmpOps[g.pick(6, "cmp_op")]
		g.feat("adjacent_integers_beyond_2^53")
		var l, r gast.Expr = gast.I(base), gast.I(base + d)
		if g.pick(2, "big_swap") == 0 {
			l, r = r, l
		}
		return &gast.Bin{Op: op, L: l, R: r}
	case "plain_and_negated":
		// the same sub-expression once in parentheses and once negated: (E) op !(E)
		e := g.Bool(depth - 1)
		op := []gast.Op{gast.OpAnd, gast.OpOr, gast.OpEq, gast.OpNEq}[g.pick(4, "pn_op")]
		g.feat("same_expression_plain_and_negated")
		var l, r gast.Expr = &gast.Paren{X: e}, &gast.Not{X: &gast.Paren{X: gast.Clone(e)}}
		if g.pick(2, "pn_swap") == 0 {
			l, r = r, l
		}
		return &gast.Bin{Op: op, L: l, R: r}
	case "booleq":
		op := []gast.Op{gast.OpEq, gast.OpNEq}[g.pick(2, "booleq_op")]
		return &gast.Bin{Op: op, L: g.Bool(depth - 1), R: g.Bool(depth - 1)}
	case "strpred":
		g.feat("strfunc")
		saved := g.C.FloatConcat
		g.C.FloatConcat = false
		defer func() { g.C.FloatConcat = saved }()
		s := g.strAtom(depth - 1)
		switch g.pick(5, "strpred") {
		case 0:
			return &gast.Call{Recv: s, Name: "Contains", Args: []gast.Expr{g.Str(0)}}
		case 1:
			return &gast.Call{Recv: s, Name: "HasPrefix", Args: []gast.Expr{g.Str(0)}}
		case 2:
			return &gast.Call{Recv: s, Name: "HasSuffix", Args: []gast.Expr{g.Str(0)}}
		case 3:
			n := g.pick(4, "in_n")
			args := make([]gast.Expr, n)
			for i := range args {
				args[i] = g.Str(0)
			}
			g.feat("variadic")
			return &gast.Call{Recv: s, Name: "In", Args: args}
		default:
			return &gast.Call{Recv: s, Name: "MatchString", Args: []gast.Expr{gast.S([]string{"^a", "b$", "a.*b", "[0-9]+", "^$", "x|y"}[g.pick(6, "regex")])}}
		}
	case "method":
		g.feat("method")
		if g.pick(2, "bool_method") == 0 {
			a, ai := g.Int(depth - 1)
			return &gast.Call{Recv: g.recv(), Name: "IsPos", Args: []gast.Expr{exactInt(a, ai)}}
		}
		return &gast.Call{Recv: g.recv(), Name: "Neg", Args: []gast.Expr{g.Bool(depth - 1)}}
	case "probe":
		g.feat("probe")
		return &gast.Call{Recv: g.recv(), Name: "PB", Args: []gast.Expr{gast.I(int64(g.pick(4, "probe_id")))}}
	case "builtin":
		g.feat("builtin")
		switch g.pick(3, "bool_builtin") {
		case 0:
			saved := g.C.FloatConcat
			g.C.FloatConcat = false
			defer func() { g.C.FloatConcat = saved }()
			return &gast.Call{Name: "StringContains", Args: []gast.Expr{g.Str(depth - 1), g.Str(0)}}
		case 1:
			return &gast.Call{Name: []string{"IsTimeBefore", "IsTimeAfter"}[g.pick(2, "tb")], Args: []gast.Expr{g.Time(depth - 1), g.Time(depth - 1)}}
		default:
			a, ai := g.Int(depth - 1)
			return &gast.Call{Name: "IsZero", Args: []gast.Expr{exactInt(a, ai)}}
		}
	}
	return g.boolAtom()
}

func (g *XG) arithOnly(e gast.Expr) bool {
	p, ok := e.(*gast.Path)
	if !ok {
		return false
	}
	txt := gast.ExprString(p)
	for _, pi := range g.C.Paths {
		if pi.Text == txt {
			return pi.ArithOnly
		}
	}
	return false
}

// NoBarePtr wraps a bare pointer-to-number read in "+ 0" (a pointer is a number only inside
// arithmetic or a comparison).
func (g *XG) NoBarePtr(e gast.Expr, float bool) gast.Expr {
	if !g.arithOnly(e) {
		return e
	}
	if float {
		return &gast.Bin{Op: gast.OpAdd, L: e, R: gast.F(0)}
	}
	return &gast.Bin{Op: gast.OpAdd, L: e, R: gast.I(0)}
}

// OfType generates an expression of the given static type. A bare pointer-to-number read is
// only meaningful inside arithmetic or a comparison, so at the top it is wrapped in "+ 0".
func (g *XG) OfType(t gast.Type, depth int) gast.Expr {
	switch t {
	case gast.TInt:
		e, _ := g.Int(depth)
		if g.arithOnly(e) {
			return &gast.Bin{Op: gast.OpAdd, L: e, R: gast.I(0)}
		}
		return e
	case gast.TFloat:
		e, _ := g.Float(depth)
		if g.arithOnly(e) {
			return &gast.Bin{Op: gast.OpAdd, L: e, R: gast.F(0)}
		}
		return e
	case gast.TStr:
		return g.Str(depth)
	case gast.TBool:
		return g.Bool(depth)
	case gast.TTime:
		return g.Time(depth)
	}
	panic("bad type")
}
