package gast

import (
	"fmt"
	"strconv"
)

// Encode converts an expression into a JSON-marshalable tree (for replay files).
func Encode(e Expr) interface{} {
	if e == nil {
		return nil
	}
	switch x := e.(type) {
	case *Lit:
		m := map[string]interface{}{"k": "lit", "t": int(x.T)}
		switch x.T {
		case TInt:
			m["v"] = strconv.FormatInt(x.I, 10)
		case TFloat:
			m["v"] = strconv.FormatFloat(x.F, 'x', -1, 64)
		case TStr:
			m["v"] = x.S
		case TBool:
			m["v"] = strconv.FormatBool(x.B)
		}
		if x.Nil {
			m["nil"] = true
		}
		if x.Text != "" {
			m["text"] = x.Text
		}
		return m
	case *Path:
		steps := make([]interface{}, len(x.Steps))
		for i, s := range x.Steps {
			if s.Index != nil {
				steps[i] = map[string]interface{}{"idx": Encode(s.Index)}
			} else {
				steps[i] = map[string]interface{}{"f": s.Field}
			}
		}
		return map[string]interface{}{"k": "path", "root": x.Root, "steps": steps}
	case *Call:
		args := make([]interface{}, len(x.Args))
		for i, a := range x.Args {
			args[i] = Encode(a)
		}
		return map[string]interface{}{"k": "call", "recv": Encode(x.Recv), "name": x.Name, "args": args}
	case *Member:
		return map[string]interface{}{"k": "member", "x": Encode(x.X), "f": x.Field}
	case *Index:
		return map[string]interface{}{"k": "index", "x": Encode(x.X), "i": Encode(x.Idx)}
	case *Not:
		return map[string]interface{}{"k": "not", "x": Encode(x.X)}
	case *Bin:
		return map[string]interface{}{"k": "bin", "op": string(x.Op), "l": Encode(x.L), "r": Encode(x.R)}
	case *Paren:
		return map[string]interface{}{"k": "paren", "x": Encode(x.X)}
	case *Frozen:
		return map[string]interface{}{"k": "frozen", "x": Encode(x.X)}
	}
	panic(fmt.Sprintf("encode: %T", e))
}

// Decode is the inverse of Encode after a JSON round trip.
func Decode(v interface{}) (Expr, error) {
	if v == nil {
		return nil, nil
	}
	m, ok := v.(map[string]interface{})
	if !ok {
		return nil, fmt.Errorf("decode: not an object")
	}
	sub := func(k string) (Expr, error) { return Decode(m[k]) }
	switch m["k"] {
	case "lit":
		var ti int
		switch tv := m["t"].(type) {
		case float64:
			ti = int(tv)
		case int:
			ti = tv
		}
		t := Type(ti)
		l := &Lit{T: t}
		s, _ := m["v"].(string)
		switch t {
		case TInt:
			i, err := strconv.ParseInt(s, 10, 64)
			if err != nil {
				return nil, err
			}
			l.I = i
		case TFloat:
			f, err := strconv.ParseFloat(s, 64)
			if err != nil {
				return nil, err
			}
			l.F = f
		case TStr:
			l.S = s
		case TBool:
			l.B = s == "true"
		}
		if b, ok := m["nil"].(bool); ok {
			l.Nil = b
		}
		if t, ok := m["text"].(string); ok {
			l.Text = t
		}
		return l, nil
	case "path":
		p := &Path{Root: m["root"].(string)}
		steps, _ := m["steps"].([]interface{})
		for _, s := range steps {
			sm := s.(map[string]interface{})
			if f, ok := sm["f"].(string); ok {
				p.Steps = append(p.Steps, Step{Field: f})
			} else {
				ix, err := Decode(sm["idx"])
				if err != nil {
					return nil, err
				}
				p.Steps = append(p.Steps, Step{Index: ix})
			}
		}
		return p, nil
	case "call":
		recv, err := sub("recv")
		if err != nil {
			return nil, err
		}
		c := &Call{Recv: recv, Name: m["name"].(string)}
		args, _ := m["args"].([]interface{})
		for _, a := range args {
			x, err := Decode(a)
			if err != nil {
				return nil, err
			}
			c.Args = append(c.Args, x)
		}
		return c, nil
	case "member":
		x, err := sub("x")
		if err != nil {
			return nil, err
		}
		return &Member{X: x, Field: m["f"].(string)}, nil
	case "index":
		x, err := sub("x")
		if err != nil {
			return nil, err
		}
		i, err := sub("i")
		if err != nil {
			return nil, err
		}
		return &Index{X: x, Idx: i}, nil
	case "not":
		x, err := sub("x")
		if err != nil {
			return nil, err
		}
		return &Not{X: x}, nil
	case "paren":
		x, err := sub("x")
		if err != nil {
			return nil, err
		}
		return &Paren{X: x}, nil
	case "frozen":
		x, err := sub("x")
		if err != nil {
			return nil, err
		}
		return &Frozen{X: x}, nil
	case "bin":
		l, err := sub("l")
		if err != nil {
			return nil, err
		}
		r, err := sub("r")
		if err != nil {
			return nil, err
		}
		return &Bin{Op: Op(m["op"].(string)), L: l, R: r}, nil
	}
	return nil, fmt.Errorf("decode: unknown node kind %v", m["k"])
}

// EncodeStmt converts a statement.
func EncodeStmt(s Stmt) interface{} {
	switch x := s.(type) {
	case *Assign:
		return map[string]interface{}{"k": "assign", "lhs": Encode(x.LHS), "op": x.Op, "rhs": Encode(x.RHS)}
	case *CallStmt:
		return map[string]interface{}{"k": "callstmt", "x": Encode(x.X)}
	}
	panic(fmt.Sprintf("encode stmt: %T", s))
}

// DecodeStmt is the inverse of EncodeStmt.
func DecodeStmt(v interface{}) (Stmt, error) {
	m, ok := v.(map[string]interface{})
	if !ok {
		return nil, fmt.Errorf("decode stmt: not an object")
	}
	switch m["k"] {
	case "assign":
		l, err := Decode(m["lhs"])
		if err != nil {
			return nil, err
		}
		r, err := Decode(m["rhs"])
		if err != nil {
			return nil, err
		}
		lp, ok := l.(*Path)
		if !ok {
			return nil, fmt.Errorf("decode stmt: lhs is not a path")
		}
		return &Assign{LHS: lp, Op: m["op"].(string), RHS: r}, nil
	case "callstmt":
		x, err := Decode(m["x"])
		if err != nil {
			return nil, err
		}
		return &CallStmt{X: x}, nil
	}
	return nil, fmt.Errorf("decode stmt: unknown kind %v", m["k"])
}

// EncodeRule converts a rule.
func EncodeRule(r *Rule) interface{} {
	m := map[string]interface{}{"name": r.Name, "when": Encode(r.When)}
	if r.Desc != nil {
		m["desc"] = *r.Desc
		m["descq"] = string(rune(r.DescQ))
	}
	if r.Salience != nil {
		m["salience"] = strconv.FormatInt(*r.Salience, 10)
	}
	if r.SalText != "" {
		m["saltext"] = r.SalText
	}
	then := make([]interface{}, len(r.Then))
	for i, s := range r.Then {
		then[i] = EncodeStmt(s)
	}
	m["then"] = then
	m["text"] = RuleString(r)
	return m
}

// DecodeRule is the inverse of EncodeRule.
func DecodeRule(v interface{}) (*Rule, error) {
	m, ok := v.(map[string]interface{})
	if !ok {
		return nil, fmt.Errorf("decode rule: not an object")
	}
	r := &Rule{Name: m["name"].(string)}
	if d, ok := m["desc"].(string); ok {
		r.Desc = &d
		if q, ok := m["descq"].(string); ok && len(q) > 0 {
			r.DescQ = q[0]
		}
	}
	if s, ok := m["salience"].(string); ok {
		i, err := strconv.ParseInt(s, 10, 64)
		if err != nil {
			return nil, err
		}
		r.Salience = &i
	}
	if s, ok := m["saltext"].(string); ok {
		r.SalText = s
	}
	w, err := Decode(m["when"])
	if err != nil {
		return nil, err
	}
	r.When = w
	then, _ := m["then"].([]interface{})
	for _, s := range then {
		st, err := DecodeStmt(s)
		if err != nil {
			return nil, err
		}
		r.Then = append(r.Then, st)
	}
	return r, nil
}

// EncodeRules converts a rule set.
func EncodeRules(rs []*Rule) []interface{} {
	out := make([]interface{}, len(rs))
	for i, r := range rs {
		out[i] = EncodeRule(r)
	}
	return out
}

// DecodeRules is the inverse of EncodeRules.
func DecodeRules(v []interface{}) ([]*Rule, error) {
	out := make([]*Rule, len(v))
	for i, x := range v {
		r, err := DecodeRule(x)
		if err != nil {
			return nil, err
		}
		out[i] = r
	}
	return out, nil
}

// Clone deep-copies an expression.
func Clone(e Expr) Expr {
	if e == nil {
		return nil
	}
	switch x := e.(type) {
	case *Lit:
		c := *x
		return &c
	case *Path:
		p := &Path{Root: x.Root, Steps: make([]Step, len(x.Steps))}
		for i, s := range x.Steps {
			p.Steps[i] = Step{Field: s.Field, Index: Clone(s.Index)}
		}
		return p
	case *Call:
		c := &Call{Recv: Clone(x.Recv), Name: x.Name, Args: make([]Expr, len(x.Args))}
		for i, a := range x.Args {
			c.Args[i] = Clone(a)
		}
		return c
	case *Member:
		return &Member{X: Clone(x.X), Field: x.Field}
	case *Index:
		return &Index{X: Clone(x.X), Idx: Clone(x.Idx)}
	case *Not:
		return &Not{X: Clone(x.X)}
	case *Bin:
		return &Bin{Op: x.Op, L: Clone(x.L), R: Clone(x.R)}
	case *Paren:
		return &Paren{X: Clone(x.X)}
	case *Frozen:
		return &Frozen{X: Clone(x.X)}
	}
	panic(fmt.Sprintf("clone: %T", e))
}
