package gast

import (
	"fmt"
	"math"
	"strconv"
	"strings"
	"unicode/utf8"
)

// Chooser supplies the printer's rendering choices. The plain chooser always answers 0,
// which yields the canonical rendering; property tests plug in a rapid-backed chooser.
type Chooser interface {
	// Choose returns a number in [0,n).
	Choose(n int, label string) int
}

// Plain is the canonical chooser.
type Plain struct{}

// Choose implements Chooser.
func (Plain) Choose(int, string) int { return 0 }

// Printer renders expressions, statements and rules.
type Printer struct {
	C Chooser
	// Vary enables legal variation (spacing, comments, redundant parentheses, keyword case,
	// literal notations). When false the output is canonical: single spaces, minimal parentheses.
	Vary bool
	// DocPrecedence prints with the minimal parentheses of the *published* precedence table,
	// without the defensive parentheses around `&` (used only to probe the known `&` finding).
	DocPrecedence bool
	// VaryLits additionally varies literal notations (int base, float form, string quoting).
	VaryLits bool
	// VarySelLits varies the notation of literal selectors (F.M['a'] / F.M["a"], F.Arr[1] / F.Arr[0x1]): the
	// engine identifies constants by value, so these spell the same variable. Not to be used when a
	// Forget/Changed call names such a variable by its text.
	VarySelLits bool
	// AmpExcluded counts `&` positions that were parenthesised defensively.
	AmpExcluded int

	sb     strings.Builder
	last   tokKind
	frozen int
}

type tokKind int

const (
	tkNone  tokKind = iota
	tkWord          // identifier, keyword, number: needs separation from another word
	tkPunct         // brackets, comma, semicolon, dot
	tkOp            // operators
	tkStr           // string literal
	tkUnary         // the prefix operator !
)

// NewPrinter makes a canonical printer.
func NewPrinter() *Printer { return &Printer{C: Plain{}} }

func (p *Printer) choose(n int, label string) int {
	if !p.Vary || n <= 1 {
		return 0
	}
	return p.C.Choose(n, label)
}

func (p *Printer) chooseLit(n int, label string) int {
	if !p.VaryLits || n <= 1 || p.frozen > 0 {
		return 0
	}
	return p.C.Choose(n, label)
}

var gaps = []string{" ", "", "  ", "\n", "\t", " /* c */ ", " // c\n", "\r\n", " /**/ "}

// emit writes a token, inserting a gap before it that keeps the token stream intact.
func (p *Printer) emit(tok string, kind tokKind) {
	if p.last != tkNone {
		needSpace := false
		if p.last == tkWord && kind == tkWord {
			needSpace = true
		}
		// an operator directly followed by an operator can glue into another token
		// ("&" "&", "<" "=", "!" "=", "/" "/", "/" "*", "-" "-" is fine but kept apart for readability)
		if (p.last == tkOp || p.last == tkUnary) && (kind == tkOp || kind == tkUnary) {
			needSpace = true
		}
		// number followed by '.' would extend the literal ("1" "." "5"); word + '.' is normal (F.X),
		// so only digits are a problem and those never precede '.' in generated text except through
		// constant receivers, which the generator renders with a space.
		// string followed by string would glue through the doubled-quote rule
		if p.last == tkStr && kind == tkStr {
			needSpace = true
		}
		g := p.pickGap(needSpace, kind)
		p.sb.WriteString(g)
	}
	p.sb.WriteString(tok)
	p.last = kind
}

func (p *Printer) pickGap(needSpace bool, next tokKind) string {
	if !p.Vary {
		if p.last == tkUnary && !needSpace {
			return ""
		}
		if needSpace || next == tkOp || next == tkUnary || p.last == tkOp || (p.last != tkPunct && next != tkPunct) {
			return " "
		}
		return ""
	}
	// comments in `gaps` always start with a space, so "/" + gap can never open a comment
	g := gaps[p.choose(len(gaps), "gap")]
	if g == "" && needSpace {
		return " "
	}
	return g
}

// tight emits punctuation that conventionally hugs its neighbours in canonical mode.
func (p *Printer) punct(tok string) { p.emit(tok, tkPunct) }

func (p *Printer) word(tok string) { p.emit(tok, tkWord) }

func (p *Printer) op(tok string) { p.emit(tok, tkOp) }

func (p *Printer) kw(k string) {
	switch p.choose(3, "kwcase") {
	case 1:
		k = strings.ToUpper(k)
	case 2:
		k = strings.ToUpper(k[:1]) + k[1:]
	}
	p.word(k)
}

// String returns the accumulated text and resets the printer.
func (p *Printer) String() string {
	s := p.sb.String()
	p.sb.Reset()
	p.last = tkNone
	return s
}

// ---------------------------------------------------------------------------------------------
// literals

// IntText renders an integer literal in one of the notations the lexer accepts.
func (p *Printer) IntText(v int64) string {
	neg := v < 0
	var mag uint64
	if neg {
		mag = uint64(-(v + 1)) + 1
	} else {
		mag = uint64(v)
	}
	var s string
	switch p.chooseLit(4, "intnot") {
	case 0:
		s = strconv.FormatUint(mag, 10)
	case 1:
		s = "0x" + strconv.FormatUint(mag, 16)
	case 2:
		s = "0X" + strings.ToUpper(strconv.FormatUint(mag, 16))
	case 3:
		s = "0" + strconv.FormatUint(mag, 8)
		if mag == 0 {
			s = "00"
		}
	}
	if neg {
		s = "-" + s
	}
	return s
}

// FloatText renders a float literal exactly (every notation parses back to the same float64).
func (p *Printer) FloatText(v float64) string {
	if math.IsNaN(v) || math.IsInf(v, 0) {
		panic("non-finite float literal")
	}
	neg := math.Signbit(v)
	a := math.Abs(v)
	var s string
	switch p.chooseLit(5, "fltnot") {
	case 0:
		s = strconv.FormatFloat(a, 'f', -1, 64)
		if !strings.Contains(s, ".") {
			s += ".0"
		}
	case 1:
		s = strconv.FormatFloat(a, 'e', -1, 64)
	case 2:
		s = strings.ToUpper(strconv.FormatFloat(a, 'e', -1, 64))
	case 3:
		s = strconv.FormatFloat(a, 'x', -1, 64)
	case 4:
		s = strconv.FormatFloat(a, 'f', -1, 64)
		if !strings.Contains(s, ".") {
			s += ".0"
		}
		if strings.HasPrefix(s, "0.") {
			s = s[1:] // ".5"
		}
	}
	if neg {
		s = "-" + s
	}
	return s
}

// QuoteDouble renders a double-quoted GRL string literal.
func QuoteDouble(s string) string { return strconv.Quote(s) }

// QuoteSingle renders a single-quoted GRL string literal (Go escapes with ' as the quote).
func QuoteSingle(s string) string {
	var b strings.Builder
	b.WriteByte('\'')
	for len(s) > 0 {
		r, size := utf8.DecodeRuneInString(s)
		if r == utf8.RuneError && size == 1 {
			fmt.Fprintf(&b, `\x%02x`, s[0])
			s = s[1:]
			continue
		}
		s = s[size:]
		switch {
		case r == '\'':
			b.WriteString(`\'`)
		case r == '\\':
			b.WriteString(`\\`)
		case r == '\n':
			b.WriteString(`\n`)
		case r == '\t':
			b.WriteString(`\t`)
		case r == '\r':
			b.WriteString(`\r`)
		case r < 0x20 || r == 0x7f:
			fmt.Fprintf(&b, `\x%02x`, r)
		default:
			b.WriteRune(r)
		}
	}
	b.WriteByte('\'')
	return b.String()
}

// StrText renders a string literal with either quote.
func (p *Printer) StrText(s string) string {
	switch p.chooseLit(3, "strq") {
	case 1:
		return QuoteSingle(s)
	case 2:
		// double quotes with \u escapes for non-ASCII
		return strconv.QuoteToASCII(s)
	}
	return QuoteDouble(s)
}

func (p *Printer) lit(l *Lit) {
	if l.Text != "" {
		if l.T == TStr {
			p.emit(l.Text, tkStr)
		} else {
			p.word(l.Text)
		}
		return
	}
	if l.Nil {
		p.kw("nil")
		return
	}
	switch l.T {
	case TInt:
		p.word(p.IntText(l.I))
	case TFloat:
		p.word(p.FloatText(l.F))
	case TStr:
		p.emit(p.StrText(l.S), tkStr)
	case TBool:
		if l.B {
			p.kw("true")
		} else {
			p.kw("false")
		}
	default:
		panic("bad literal type")
	}
}

// ---------------------------------------------------------------------------------------------
// expressions

func isAtom(e Expr) bool {
	switch e.(type) {
	case *Lit, *Path, *Call, *Member, *Index:
		return true
	case *Frozen:
		return isAtom(e.(*Frozen).X)
	case *Not:
		// !atom is an atom; !(expr) is an expression
		return isAtom(e.(*Not).X)
	}
	return false
}

func isArith(o Op) bool { l := DocLevel(o); return l == 4 || l == 5 }

func (p *Printer) needParens(parent *Bin, child Expr, right bool) bool {
	c, ok := child.(*Bin)
	if !ok {
		return false
	}
	pl, cl := DocLevel(parent.Op), DocLevel(c.Op)
	if !p.DocPrecedence {
		// `&` is grouped differently by the published table and by the parser: keep every
		// `&` next to another arithmetic operator explicit.
		if (c.Op == OpBAnd && isArith(parent.Op)) || (parent.Op == OpBAnd && isArith(c.Op)) {
			if !(c.Op == OpBAnd && parent.Op == OpBAnd && !right) {
				p.AmpExcluded++
				return true
			}
		}
	}
	if cl < pl {
		return true
	}
	if cl == pl && right {
		return true
	}
	return false
}

// Expr renders an expression.
func (p *Printer) Expr(e Expr) {
	if p.Vary && p.frozen == 0 {
		if _, isParen := e.(*Paren); !isParen && p.choose(8, "xparen") == 7 {
			p.punct("(")
			p.exprNoExtra(e)
			p.punct(")")
			return
		}
	}
	p.exprNoExtra(e)
}

func (p *Printer) exprNoExtra(e Expr) {
	switch x := e.(type) {
	case *Bin:
		p.operand(x, x.L, false)
		p.op(string(x.Op))
		p.operand(x, x.R, true)
	case *Paren:
		p.punct("(")
		p.Expr(x.X)
		p.punct(")")
	case *Not:
		if isAtom(x.X) {
			p.emit("!", tkUnary)
			p.atom(x.X)
		} else {
			p.emit("!", tkUnary)
			p.punct("(")
			inner := x.X
			if pr, ok := inner.(*Paren); ok {
				inner = pr.X
			}
			p.Expr(inner)
			p.punct(")")
		}
	default:
		p.atom(e)
	}
}

func (p *Printer) operand(parent *Bin, child Expr, right bool) {
	if p.needParens(parent, child, right) {
		p.punct("(")
		p.Expr(child)
		p.punct(")")
		return
	}
	// a negated parenthesised expression or a plain atom prints itself
	p.Expr(child)
}

func (p *Printer) atom(e Expr) {
	switch x := e.(type) {
	case *Frozen:
		p.frozen++
		p.atom(x.X)
		p.frozen--
	case *Lit:
		p.lit(x)
	case *Path:
		p.path(x)
	case *Call:
		if x.Recv != nil {
			p.atom(x.Recv)
			if l, ok := x.Recv.(*Lit); ok && l.T != TStr {
				// keep "1" "." apart so the lexer does not read a float
				p.sb.WriteString(" ")
			}
			p.punct(".")
		}
		p.word(x.Name)
		p.punct("(")
		for i, a := range x.Args {
			if i > 0 {
				p.punct(",")
			}
			p.Expr(a)
		}
		p.punct(")")
	case *Member:
		p.atom(x.X)
		p.punct(".")
		p.word(x.Field)
	case *Index:
		p.atom(x.X)
		p.punct("[")
		p.Expr(x.Idx)
		p.punct("]")
	case *Not:
		p.emit("!", tkUnary)
		p.atom(x.X)
	default:
		panic(fmt.Sprintf("not an atom: %T", e))
	}
}

func (p *Printer) path(x *Path) {
	p.word(x.Root)
	for _, s := range x.Steps {
		if s.Index != nil {
			// a selector's spelling is part of the variable's identity in the working memory
			// (one canonical spelling per path): no redundant parentheses inside
			p.punct("[")
			if l, ok := s.Index.(*Lit); ok && p.VarySelLits && p.Vary && p.frozen == 0 && l.Text == "" && (l.T == TStr || (l.T == TInt && l.I >= 0)) {
				saved := p.VaryLits
				p.VaryLits = true
				p.lit(l)
				p.VaryLits = saved
			} else {
				p.frozen++
				p.Expr(s.Index)
				p.frozen--
			}
			p.punct("]")
		} else {
			p.punct(".")
			p.word(s.Field)
		}
	}
}

// Stmt renders a statement without the terminating semicolon.
func (p *Printer) Stmt(s Stmt) {
	switch x := s.(type) {
	case *Assign:
		p.path(x.LHS)
		p.op(x.Op)
		p.Expr(x.RHS)
	case *CallStmt:
		p.atom(x.X)
	}
}

// Rule renders a rule entry.
func (p *Printer) Rule(r *Rule) {
	p.kw("rule")
	p.word(r.Name)
	if r.Desc != nil {
		q := r.DescQ
		if q == 0 {
			q = '"'
		}
		p.emit(string(q)+*r.Desc+string(q), tkStr)
	}
	if r.Salience != nil {
		p.kw("salience")
		if r.SalText != "" {
			p.word(r.SalText)
		} else {
			p.word(p.IntText(*r.Salience))
		}
	}
	p.punct("{")
	p.kw("when")
	p.Expr(r.When)
	p.kw("then")
	for _, s := range r.Then {
		p.Stmt(s)
		p.punct(";")
	}
	p.punct("}")
}

// ---------------------------------------------------------------------------------------------
// conveniences

// ExprString renders canonically.
func ExprString(e Expr) string {
	p := NewPrinter()
	p.Expr(e)
	return p.String()
}

// StmtString renders canonically.
func StmtString(s Stmt) string {
	p := NewPrinter()
	p.Stmt(s)
	return p.String()
}

// RuleString renders canonically.
func RuleString(r *Rule) string {
	p := NewPrinter()
	p.Rule(r)
	return p.String()
}

// RulesString renders a rule set canonically, one rule per line.
func RulesString(rs []*Rule) string {
	var b strings.Builder
	for _, r := range rs {
		b.WriteString(RuleString(r))
		b.WriteString("\n")
	}
	return b.String()
}

// CompactText is the text of an atom as the parser's GetText() reports it (all tokens glued,
// no whitespace) when the atom was printed canonically. It is what Forget/Changed must name.
func CompactText(e Expr) string {
	s := ExprString(e)
	// canonical rendering uses single spaces only between tokens; GetText() drops them. Spaces
	// inside string literals must survive, so strip outside quotes only.
	var b strings.Builder
	inQ := byte(0)
	for i := 0; i < len(s); i++ {
		c := s[i]
		if inQ != 0 {
			b.WriteByte(c)
			if c == '\\' && i+1 < len(s) {
				i++
				b.WriteByte(s[i])
				continue
			}
			if c == inQ {
				inQ = 0
			}
			continue
		}
		if c == '"' || c == '\'' {
			inQ = c
			b.WriteByte(c)
			continue
		}
		if c == ' ' {
			continue
		}
		b.WriteByte(c)
	}
	return b.String()
}
