// Package gast is the harness's own GRL abstract syntax: expression and statement trees,
// a printer that renders one tree in many legal ways, and type-directed generators.
// Nothing here imports grule.
package gast

import "encoding/json"

// Type is the static type used by the generators.
type Type int

const (
	TInt Type = iota
	TFloat
	TStr
	TBool
	TTime
	TObj
	TVoid
)

func (t Type) String() string {
	return [...]string{"int", "float", "string", "bool", "time", "obj", "void"}[t]
}

// Op is a binary operator.
type Op string

const (
	OpMul  Op = "*"
	OpDiv  Op = "/"
	OpMod  Op = "%"
	OpAdd  Op = "+"
	OpSub  Op = "-"
	OpBAnd Op = "&"
	OpBOr  Op = "|"
	OpGT   Op = ">"
	OpLT   Op = "<"
	OpGTE  Op = ">="
	OpLTE  Op = "<="
	OpEq   Op = "=="
	OpNEq  Op = "!="
	OpAnd  Op = "&&"
	OpOr   Op = "||"
)

// DocLevel is the precedence level of the published table in docs/en/GRL_en.md
// (higher binds tighter): 5 = * / % &, 4 = + - |, 3 = comparisons, 2 = &&, 1 = ||.
func DocLevel(o Op) int {
	switch o {
	case OpMul, OpDiv, OpMod, OpBAnd:
		return 5
	case OpAdd, OpSub, OpBOr:
		return 4
	case OpGT, OpLT, OpGTE, OpLTE, OpEq, OpNEq:
		return 3
	case OpAnd:
		return 2
	case OpOr:
		return 1
	}
	return 0
}

// Expr is an expression node: *Lit, *Path, *Call, *Member, *Index, *Not, *Bin, *Paren.
type Expr interface{ isExpr() }

// Lit is a literal constant. Text, when set, is the exact source rendering to use.
type Lit struct {
	T    Type    `json:"t"`
	I    int64   `json:"i,omitempty"`
	F    float64 `json:"f,omitempty"`
	S    string  `json:"s,omitempty"`
	B    bool    `json:"b,omitempty"`
	Nil  bool    `json:"nil,omitempty"`
	Text string  `json:"text,omitempty"`
}

// Step is one selector of a path: a field name or an index/key expression.
type Step struct {
	Field string `json:"field,omitempty"`
	Index Expr   `json:"-"`
}

// Path is a variable: Root(.Field | [Index])*.
type Path struct {
	Root  string
	Steps []Step
}

// Call is a function or method call. Recv == nil is a built-in function call.
type Call struct {
	Recv Expr
	Name string
	Args []Expr
}

// Member is a field access on a non-variable atom (e.g. a call result): X.Field.
type Member struct {
	X     Expr
	Field string
}

// Index is a selector on a non-variable atom: X[Idx].
type Index struct {
	X   Expr
	Idx Expr
}

// Not is logical negation of an atom or (printed with parentheses) of an expression.
type Not struct{ X Expr }

// Bin is a binary operation.
type Bin struct {
	Op   Op
	L, R Expr
}

// Paren is an explicit redundant pair of parentheses.
type Paren struct{ X Expr }

// Frozen marks an atom whose text is named by a Forget/Changed call: the printer renders it
// canonically (no redundant parentheses, canonical literals) so the text the parser records
// equals CompactText(X).
type Frozen struct{ X Expr }

func (*Lit) isExpr()    {}
func (*Path) isExpr()   {}
func (*Call) isExpr()   {}
func (*Member) isExpr() {}
func (*Index) isExpr()  {}
func (*Not) isExpr()    {}
func (*Bin) isExpr()    {}
func (*Paren) isExpr()  {}
func (*Frozen) isExpr() {}

// Stmt is an action: *Assign or *CallStmt.
type Stmt interface{ isStmt() }

// Assign is `LHS op RHS` with op in = += -= *= /=.
type Assign struct {
	LHS *Path
	Op  string
	RHS Expr
}

// CallStmt is an expression atom used as a statement (method or function call).
type CallStmt struct{ X Expr }

func (*Assign) isStmt()   {}
func (*CallStmt) isStmt() {}

// Rule is one rule entry.
type Rule struct {
	Name     string
	Desc     *string // raw description text (without quotes); nil = omitted
	DescQ    byte    // quote character for the description ('"' or '\'')
	Salience *int64  // nil = omitted (default 0)
	SalText  string  // exact rendering of the salience literal, optional
	When     Expr
	Then     []Stmt
}

// SalienceValue returns the effective salience.
func (r *Rule) SalienceValue() int64 {
	if r.Salience == nil {
		return 0
	}
	return *r.Salience
}

// ---------------------------------------------------------------------------------------------
// helpers

// I makes an int literal.
func I(v int64) *Lit { return &Lit{T: TInt, I: v} }

// F makes a float literal.
func F(v float64) *Lit { return &Lit{T: TFloat, F: v} }

// S makes a string literal.
func S(v string) *Lit { return &Lit{T: TStr, S: v} }

// B makes a bool literal.
func B(v bool) *Lit { return &Lit{T: TBool, B: v} }

// P makes a path from a root and field names.
func P(root string, fields ...string) *Path {
	p := &Path{Root: root}
	for _, f := range fields {
		p.Steps = append(p.Steps, Step{Field: f})
	}
	return p
}

// At appends an index step.
func (p *Path) At(idx Expr) *Path {
	q := &Path{Root: p.Root, Steps: append(append([]Step{}, p.Steps...), Step{Index: idx})}
	return q
}

// Dot appends a field step.
func (p *Path) Dot(f string) *Path {
	q := &Path{Root: p.Root, Steps: append(append([]Step{}, p.Steps...), Step{Field: f})}
	return q
}

// Walk calls fn on every expression node below e (pre-order).
func Walk(e Expr, fn func(Expr)) {
	if e == nil {
		return
	}
	fn(e)
	switch x := e.(type) {
	case *Path:
		for _, s := range x.Steps {
			if s.Index != nil {
				Walk(s.Index, fn)
			}
		}
	case *Call:
		if x.Recv != nil {
			Walk(x.Recv, fn)
		}
		for _, a := range x.Args {
			Walk(a, fn)
		}
	case *Member:
		Walk(x.X, fn)
	case *Index:
		Walk(x.X, fn)
		Walk(x.Idx, fn)
	case *Not:
		Walk(x.X, fn)
	case *Bin:
		Walk(x.L, fn)
		Walk(x.R, fn)
	case *Paren:
		Walk(x.X, fn)
	case *Frozen:
		Walk(x.X, fn)
	}
}

// WalkStmt walks the expressions of a statement.
func WalkStmt(s Stmt, fn func(Expr)) {
	switch x := s.(type) {
	case *Assign:
		Walk(x.LHS, fn)
		Walk(x.RHS, fn)
	case *CallStmt:
		Walk(x.X, fn)
	}
}

// JSONString is a debugging helper.
func JSONString(v interface{}) string {
	b, _ := json.Marshal(v)
	return string(b)
}
