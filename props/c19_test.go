package props

import (
	"encoding/json"
	"fmt"
	"math"
	"reflect"
	"sort"
	"strconv"
	"strings"
	"testing"
	"time"

	"github.com/hyperjumptech/grule-rule-engine/ast"
	"github.com/hyperjumptech/grule-rule-engine/pkg"
	"pgregory.net/rapid"

	"verif/internal/facts"
	"verif/internal/obs"
	"verif/internal/stats"
)

// C19: comparison operators are mutually consistent across operand kinds.

type c19Operand struct {
	Kind string `json:"kind"` // Go kind name, "string", "bool", "time"
	Wrap string `json:"wrap"` // "", "ptr", "iface", "ptrptr"
	I    int64  `json:"i,omitempty"`
	F    string `json:"f,omitempty"` // float as hex text for exact replay
	S    string `json:"s,omitempty"`
	B    bool   `json:"b,omitempty"`
	T    string `json:"t,omitempty"` // RFC3339Nano
	Loc  string `json:"loc,omitempty"`
	Mono bool   `json:"mono,omitempty"`
}

type c19Case struct {
	Family string     `json:"family"`
	L      c19Operand `json:"l"`
	R      c19Operand `json:"r"`
	GRL    bool       `json:"grl"`
	// Twins: the knowledge base also holds the "else" twin of every comparison rule, !(L op R), after (1) or
	// before (2) the plain rules
	Twins int `json:"negated_twins,omitempty"`
	// Lit: the right (1) or left (2) operand is written as an integer literal in the rule text instead of being
	// read from a fact field (only for plain integer operands within the int64 range)
	Lit int `json:"operand_as_literal,omitempty"`
}

var c19IntKinds = []string{"int", "int8", "int16", "int32", "int64", "uint", "uint8", "uint16", "uint32", "uint64"}
var c19FloatKinds = []string{"float32", "float64"}

var kindTypes = map[string]reflect.Type{
	"int": reflect.TypeOf(int(0)), "int8": reflect.TypeOf(int8(0)), "int16": reflect.TypeOf(int16(0)), "int32": reflect.TypeOf(int32(0)), "int64": reflect.TypeOf(int64(0)),
	"uint": reflect.TypeOf(uint(0)), "uint8": reflect.TypeOf(uint8(0)), "uint16": reflect.TypeOf(uint16(0)), "uint32": reflect.TypeOf(uint32(0)), "uint64": reflect.TypeOf(uint64(0)),
	"float32": reflect.TypeOf(float32(0)), "float64": reflect.TypeOf(float64(0)),
}

func intRange(kind string) (lo, hi int64) {
	switch kind {
	case "int8":
		return math.MinInt8, math.MaxInt8
	case "int16":
		return math.MinInt16, math.MaxInt16
	case "int32":
		return math.MinInt32, math.MaxInt32
	case "int", "int64":
		return math.MinInt64, math.MaxInt64
	case "uint8":
		return 0, math.MaxUint8
	case "uint16":
		return 0, math.MaxUint16
	case "uint32":
		return 0, math.MaxUint32
	case "uint", "uint64":
		return 0, math.MaxInt64 // restricted to the int64 range by the property
	}
	panic(kind)
}

var c19IntPool = []int64{0, 1, -1, 2, -2, 3, 7, 100, -100, 126, 127, 128, -127, -128, -129, 255, 256, 32767, 32768, -32768, -32769, 65535, 65536,
	math.MaxInt32, math.MaxInt32 + 1, math.MinInt32, math.MinInt32 - 1, math.MaxUint32, math.MaxUint32 + 1,
	1 << 53, 1<<53 + 1, 1<<53 - 1, -(1 << 53), -(1<<53 + 1), 1<<62 + 1, math.MaxInt64, math.MaxInt64 - 1, math.MinInt64, math.MinInt64 + 1}

var c19FloatPool = []float64{0, math.Copysign(0, -1), 1, -1, 0.5, -0.5, 1.5, 2.5, 0.1, 0.25, 0.9999999, 1.0000001, 126.5, 127, 127.5, 128, 255, 255.5, 256,
	32767, 32768, 65535.5, 2147483647, 2147483648, 4294967295, 4294967296, 1 << 53, 1<<53 + 2, -(1 << 53), 9223372036854775807, 9223372036854774784, -9223372036854775808,
	1e18, -1e18, 1e-9, -1e-9, 3.4028234663852886e38, 1e300, -1e300, math.SmallestNonzeroFloat64, float64(float32(0.1)), float64(float32(16777217))}

func genIntFor(t *rapid.T, kind, label string) int64 {
	lo, hi := intRange(kind)
	if rapid.IntRange(0, 9).Draw(t, label+"_pool") < 7 {
		// boundary pool, filtered to what the kind can represent
		var ok []int64
		for _, v := range c19IntPool {
			if v >= lo && v <= hi {
				ok = append(ok, v)
			}
		}
		return rapid.SampledFrom(ok).Draw(t, label)
	}
	return rapid.Int64Range(lo, hi).Draw(t, label)
}

func genFloatFor(t *rapid.T, kind, label string) float64 {
	var f float64
	if rapid.IntRange(0, 9).Draw(t, label+"_pool") < 7 {
		f = rapid.SampledFrom(c19FloatPool).Draw(t, label)
	} else {
		f = rapid.Float64Range(-1e6, 1e6).Draw(t, label)
	}
	if kind == "float32" {
		if math.Abs(f) > math.MaxFloat32 {
			f = math.Copysign(math.MaxFloat32, f)
		}
		f = float64(float32(f))
	}
	return f
}

func genNumOperand(t *rapid.T, label string, near *c19Operand) c19Operand {
	var op c19Operand
	if rapid.IntRange(0, 5).Draw(t, label+"_isfloat") < 2 {
		op.Kind = rapid.SampledFrom(c19FloatKinds).Draw(t, label+"_kind")
	} else {
		op.Kind = rapid.SampledFrom(c19IntKinds).Draw(t, label+"_kind")
	}
	isF := strings.HasPrefix(op.Kind, "float")
	// aim at the other operand's value (equal or adjacent) half of the time
	if near != nil && rapid.Bool().Draw(t, label+"_near") {
		nv := operandFloat(*near)
		if isF {
			f := nv
			switch rapid.IntRange(0, 2).Draw(t, label+"_delta") {
			case 1:
				f = math.Nextafter(f, math.Inf(1))
			case 2:
				f = math.Nextafter(f, math.Inf(-1))
			}
			if op.Kind == "float32" {
				if math.Abs(f) > math.MaxFloat32 {
					f = math.Copysign(math.MaxFloat32, f)
				}
				f = float64(float32(f))
			}
			op.F = fhex(f)
		} else {
			lo, hi := intRange(op.Kind)
			var i int64
			if strings.HasPrefix(near.Kind, "float") {
				switch {
				case nv >= 9.2233720368547758e18:
					i = math.MaxInt64
				case nv <= -9.2233720368547758e18:
					i = math.MinInt64
				default:
					i = int64(nv)
				}
			} else {
				i = near.I
			}
			d := int64(rapid.IntRange(-1, 1).Draw(t, label+"_delta"))
			if (d > 0 && i < math.MaxInt64) || (d < 0 && i > math.MinInt64) {
				i += d
			}
			if i < lo {
				i = lo
			}
			if i > hi {
				i = hi
			}
			op.I = i
		}
	} else if isF {
		op.F = fhex(genFloatFor(t, op.Kind, label+"_v"))
	} else {
		op.I = genIntFor(t, op.Kind, label+"_v")
	}
	op.Wrap = rapid.SampledFrom([]string{"", "", "ptr", "iface", "ptrptr"}).Draw(t, label+"_wrap")
	return op
}

func fhex(f float64) string { return fmt.Sprintf("%x", f) }

func mustHexFloat(s string) float64 {
	f, err := strconv.ParseFloat(s, 64)
	if err != nil {
		panic(fmt.Sprintf("bad float text %q: %v", s, err))
	}
	return f
}

func operandFloat(o c19Operand) float64 {
	if strings.HasPrefix(o.Kind, "float") {
		return mustHexFloat(o.F)
	}
	return float64(o.I)
}

func operandValue(o c19Operand) reflect.Value {
	var v reflect.Value
	switch {
	case o.Kind == "string":
		v = reflect.ValueOf(o.S)
	case o.Kind == "bool":
		v = reflect.ValueOf(o.B)
	case o.Kind == "time":
		v = reflect.ValueOf(operandTime(o))
	case strings.HasPrefix(o.Kind, "float"):
		v = reflect.New(kindTypes[o.Kind]).Elem()
		v.SetFloat(mustHexFloat(o.F))
	case strings.HasPrefix(o.Kind, "uint"):
		v = reflect.New(kindTypes[o.Kind]).Elem()
		v.SetUint(uint64(o.I))
	default:
		v = reflect.New(kindTypes[o.Kind]).Elem()
		v.SetInt(o.I)
	}
	switch o.Wrap {
	case "ptr":
		p := reflect.New(v.Type())
		p.Elem().Set(v)
		return p
	case "ptrptr":
		p := reflect.New(v.Type())
		p.Elem().Set(v)
		pp := reflect.New(p.Type())
		pp.Elem().Set(p)
		return pp
	case "iface":
		var x interface{} = v.Interface()
		return reflect.ValueOf(&x).Elem()
	}
	return v
}

var monoBase = time.Now()

func operandTime(o c19Operand) time.Time {
	t, err := time.Parse(time.RFC3339Nano, o.T)
	if err != nil {
		panic(err)
	}
	if o.Mono {
		// a reading with a monotonic clock component that denotes the same wall instant
		d := t.Sub(monoBase.Round(0))
		t = monoBase.Add(d)
	}
	if l := facts.LocByName(o.Loc); l != nil {
		t = t.In(l)
	}
	return t
}

type sixResults struct {
	LT, EQ, GT, LTE, GTE, NEQ bool
	Err                       map[string]string
}

func evalSix(l, r reflect.Value) sixResults {
	var out sixResults
	out.Err = map[string]string{}
	call := func(name string, fn func(a, b reflect.Value) (reflect.Value, error)) (res bool) {
		defer func() {
			if rec := recover(); rec != nil {
				out.Err[name] = fmt.Sprintf("panic: %v", rec)
			}
		}()
		v, err := fn(l, r)
		if err != nil {
			out.Err[name] = err.Error()
			return false
		}
		if v.Kind() != reflect.Bool {
			out.Err[name] = "non-boolean result"
			return false
		}
		return v.Bool()
	}
	out.LT = call("<", pkg.EvaluateLesserThan)
	out.EQ = call("==", pkg.EvaluateEqual)
	out.GT = call(">", pkg.EvaluateGreaterThan)
	out.LTE = call("<=", pkg.EvaluateLesserThanEqual)
	out.GTE = call(">=", pkg.EvaluateGreaterThanEqual)
	out.NEQ = call("!=", pkg.EvaluateNotEqual)
	return out
}

// refOrder is the documented order: float64 promotion when a float is involved, int64 otherwise;
// strings bytewise; times by instant; booleans by equality only (returns 0 or 1).
func refOrder(c c19Case) int {
	switch c.Family {
	case "string":
		return strings.Compare(c.L.S, c.R.S)
	case "bool":
		if c.L.B == c.R.B {
			return 0
		}
		return 1
	case "time":
		a, b := operandTime(c.L), operandTime(c.R)
		switch {
		case a.Before(b):
			return -1
		case a.After(b):
			return 1
		}
		return 0
	}
	lf, rf := strings.HasPrefix(c.L.Kind, "float"), strings.HasPrefix(c.R.Kind, "float")
	if lf || rf {
		a, b := operandFloat(c.L), operandFloat(c.R)
		switch {
		case a < b:
			return -1
		case a > b:
			return 1
		}
		return 0
	}
	switch {
	case c.L.I < c.R.I:
		return -1
	case c.L.I > c.R.I:
		return 1
	}
	return 0
}

func checkSix(c c19Case, got sixResults, route string) error {
	ordered := c.Family != "bool"
	ops := []string{"==", "!="}
	if ordered {
		ops = []string{"<", "==", ">", "<=", ">=", "!="}
	}
	for _, o := range ops {
		if e, bad := got.Err[o]; bad {
			return fmt.Errorf("[%s] operator %s failed on same-family operands: %s", route, o, e)
		}
	}
	ord := refOrder(c)
	if ordered {
		n := 0
		for _, b := range []bool{got.LT, got.EQ, got.GT} {
			if b {
				n++
			}
		}
		if n != 1 {
			return fmt.Errorf("[%s] trichotomy broken: < %v, == %v, > %v", route, got.LT, got.EQ, got.GT)
		}
		if got.LTE != (got.LT || got.EQ) {
			return fmt.Errorf("[%s] <= is %v but < is %v and == is %v", route, got.LTE, got.LT, got.EQ)
		}
		if got.GTE != (got.GT || got.EQ) {
			return fmt.Errorf("[%s] >= is %v but > is %v and == is %v", route, got.GTE, got.GT, got.EQ)
		}
		if got.LT != (ord < 0) || got.GT != (ord > 0) {
			return fmt.Errorf("[%s] order does not follow the values: reference %d, < %v, > %v", route, ord, got.LT, got.GT)
		}
	}
	if got.NEQ != !got.EQ {
		return fmt.Errorf("[%s] != is %v but == is %v", route, got.NEQ, got.EQ)
	}
	if got.EQ != (ord == 0) {
		return fmt.Errorf("[%s] == is %v but the values compare %d", route, got.EQ, ord)
	}
	return nil
}

func mirror(a sixResults) sixResults {
	return sixResults{LT: a.GT, EQ: a.EQ, GT: a.LT, LTE: a.GTE, GTE: a.LTE, NEQ: a.NEQ, Err: map[string]string{}}
}

// ---- GRL route ---------------------------------------------------------------------------------

var c19FieldOf = map[string]string{"int": "I", "int8": "I8", "int16": "I16", "int32": "I32", "int64": "I64",
	"uint": "U", "uint8": "U8", "uint16": "U16", "uint32": "U32", "uint64": "U64", "float32": "F32", "float64": "F64",
	"string": "S", "bool": "B", "time": "T"}

func c19Field(o c19Operand) (string, bool) {
	switch o.Wrap {
	case "":
		return c19FieldOf[o.Kind], true
	case "ptr":
		if o.Kind == "int64" {
			return "PI", true
		}
		if o.Kind == "float64" {
			return "PF", true
		}
		return "", false
	case "iface":
		return "AnyN", true
	}
	return "", false
}

func c19SetField(f *facts.Fact, o c19Operand) {
	v := operandValue(c19Operand{Kind: o.Kind, I: o.I, F: o.F, S: o.S, B: o.B, T: o.T, Loc: o.Loc, Mono: o.Mono})
	name, _ := c19Field(o)
	fv := reflect.ValueOf(f).Elem().FieldByName(name)
	switch o.Wrap {
	case "ptr":
		p := reflect.New(v.Type())
		p.Elem().Set(v)
		fv.Set(p)
	default:
		fv.Set(v)
	}
}

var c19KBCache = map[string]*ast.KnowledgeLibrary{}

func c19Lib(lf, rf string, ordered bool, twins int) (*ast.KnowledgeLibrary, error) {
	key := fmt.Sprintf("%s|%s|%v|%d", lf, rf, ordered, twins)
	if lib, ok := c19KBCache[key]; ok {
		return lib, nil
	}
	ops := [][2]string{{"EQ", "=="}, {"NEQ", "!="}}
	if ordered {
		ops = append(ops, [2]string{"LT", "<"}, [2]string{"GT", ">"}, [2]string{"LTE", "<="}, [2]string{"GTE", ">="})
	}
	var plain, neg strings.Builder
	for _, o := range ops {
		fmt.Fprintf(&plain, "rule %s { when F.%s %s G.%s then Retract(\"%s\"); }\n", o[0], lf, o[1], rf, o[0])
		fmt.Fprintf(&neg, "rule Else%s { when !(F.%s %s G.%s) then Retract(\"Else%s\"); }\n", o[0], lf, o[1], rf, o[0])
	}
	text := plain.String()
	switch twins {
	case 1:
		text = plain.String() + neg.String()
	case 2:
		text = neg.String() + plain.String()
	}
	lib, err := obs.Build(text)
	if err != nil {
		return nil, err
	}
	c19KBCache[key] = lib
	return lib, nil
}

// c19LitLib builds the six rules with one operand written as a literal.
func c19LitLib(lf, rf string, c c19Case) (*ast.KnowledgeLibrary, error) {
	l, r := "F."+lf, "G."+rf
	if c.Lit == 1 {
		r = strconv.FormatInt(c.R.I, 10)
	} else {
		l = strconv.FormatInt(c.L.I, 10)
	}
	var b strings.Builder
	for _, o := range [][2]string{{"EQ", "=="}, {"NEQ", "!="}, {"LT", "<"}, {"GT", ">"}, {"LTE", "<="}, {"GTE", ">="}} {
		fmt.Fprintf(&b, "rule %s { when %s %s %s then Retract(\"%s\"); }\n", o[0], l, o[1], r, o[0])
	}
	return obs.Build(b.String())
}

func c19IntLiteralOK(o c19Operand) bool {
	switch o.Kind {
	case "int", "int8", "int16", "int32", "int64", "uint", "uint8", "uint16", "uint32", "uint64":
		return o.Wrap == ""
	}
	return false
}

func c19ViaGRL(c c19Case) (sixResults, bool, error) {
	lf, ok1 := c19Field(c.L)
	rf, ok2 := c19Field(c.R)
	if !ok1 || !ok2 {
		return sixResults{}, false, nil
	}
	var lib *ast.KnowledgeLibrary
	var err error
	if (c.Lit == 1 && c19IntLiteralOK(c.R)) || (c.Lit == 2 && c19IntLiteralOK(c.L)) {
		lib, err = c19LitLib(lf, rf, c)
		c.Twins = 0
	} else {
		lib, err = c19Lib(lf, rf, c.Family != "bool", c.Twins)
	}
	if err != nil {
		return sixResults{}, true, fmt.Errorf("building comparison rules: %v", err)
	}
	kb, err := obs.Instance(lib)
	if err != nil {
		return sixResults{}, true, fmt.Errorf("instance: %v", err)
	}
	F, G := &facts.Fact{}, &facts.Fact{}
	c19SetField(F, c.L)
	c19SetField(G, c.R)
	st := &facts.State{Go: map[string]*facts.Fact{"F": F, "G": G}}
	dc, err := obs.NewDataContext(st)
	if err != nil {
		return sixResults{}, true, err
	}
	names, _, ferr, pan := obs.Fetch(kb, dc, true)
	if pan != nil {
		return sixResults{}, true, fmt.Errorf("FetchMatchingRules panicked: %v", pan)
	}
	out := sixResults{Err: map[string]string{}}
	if ferr != nil {
		return out, true, fmt.Errorf("a comparison of same-family operands raised an error: %v", ferr)
	}
	sort.Strings(names)
	got := map[string]bool{}
	for _, n := range names {
		got[n] = true
	}
	if c.Twins > 0 {
		ops := []string{"EQ", "NEQ"}
		if c.Family != "bool" {
			ops = append(ops, "LT", "GT", "LTE", "GTE")
		}
		for _, o := range ops {
			if got[o] == got["Else"+o] {
				return out, true, fmt.Errorf("rule %s (L op R) matches=%v and its else-twin Else%s (!(L op R)) matches=%v in the same knowledge base", o, got[o], o, got["Else"+o])
			}
		}
	}
	for _, n := range names {
		switch n {
		case "LT":
			out.LT = true
		case "EQ":
			out.EQ = true
		case "GT":
			out.GT = true
		case "LTE":
			out.LTE = true
		case "GTE":
			out.GTE = true
		case "NEQ":
			out.NEQ = true
		}
	}
	return out, true, nil
}

// ---- the property -------------------------------------------------------------------------------

func c19Run(c c19Case) (string, error) {
	l, r := operandValue(c.L), operandValue(c.R)
	fwd := evalSix(l, r)
	if err := checkSix(c, fwd, "direct"); err != nil {
		return "direct", err
	}
	bwd := evalSix(r, l)
	sw := c19Case{Family: c.Family, L: c.R, R: c.L}
	if err := checkSix(sw, bwd, "direct-swapped"); err != nil {
		return "direct", err
	}
	m := mirror(fwd)
	if c.Family == "bool" {
		if m.EQ != bwd.EQ || m.NEQ != bwd.NEQ {
			return "direct", fmt.Errorf("swapping the operands changes ==/!=")
		}
	} else if m.LT != bwd.LT || m.EQ != bwd.EQ || m.GT != bwd.GT || m.LTE != bwd.LTE || m.GTE != bwd.GTE || m.NEQ != bwd.NEQ {
		return "direct", fmt.Errorf("swapping the operands does not mirror the outcome: %+v vs %+v", fwd, bwd)
	}
	if c.GRL {
		g, applicable, err := c19ViaGRL(c)
		if err != nil {
			return "grl", err
		}
		if applicable {
			if err := checkSix(c, g, "grl"); err != nil {
				return "grl", err
			}
		}
	}
	return "", nil
}

var c19Strings = []string{"", "a", "b", "A", "aa", "ab", "a ", " a", "é", "e", "z", "Z", "10", "9", "\x00", "a\x00", "\"", "'", "ÿ", "ÿ", "abc", "abd", "ab"}

func genC19(t *rapid.T) c19Case {
	var c c19Case
	c.Family = rapid.SampledFrom([]string{"num", "num", "num", "num", "string", "bool", "time", "time"}).Draw(t, "family")
	wraps := []string{"", "", "ptr", "iface", "ptrptr"}
	switch c.Family {
	case "num":
		c.L = genNumOperand(t, "l", nil)
		c.R = genNumOperand(t, "r", &c.L)
	case "string":
		c.L = c19Operand{Kind: "string", S: rapid.SampledFrom(c19Strings).Draw(t, "ls"), Wrap: rapid.SampledFrom(wraps).Draw(t, "lw")}
		if rapid.Bool().Draw(t, "rnd") {
			c.R = c19Operand{Kind: "string", S: rapid.StringN(0, 4, 8).Draw(t, "rs"), Wrap: rapid.SampledFrom(wraps).Draw(t, "rw")}
		} else {
			c.R = c19Operand{Kind: "string", S: rapid.SampledFrom(c19Strings).Draw(t, "rs2"), Wrap: rapid.SampledFrom(wraps).Draw(t, "rw")}
		}
	case "bool":
		c.L = c19Operand{Kind: "bool", B: rapid.Bool().Draw(t, "lb"), Wrap: rapid.SampledFrom(wraps).Draw(t, "lw")}
		c.R = c19Operand{Kind: "bool", B: rapid.Bool().Draw(t, "rb"), Wrap: rapid.SampledFrom(wraps).Draw(t, "rw")}
	case "time":
		base := time.Date(2024, 2, 29, 23, 59, 59, 0, time.UTC)
		off := rapid.SampledFrom([]int64{0, 0, 1, -1, 1000, -1000, 1e9, -1e9, 86400e9, 7 * 3600e9, -5 * 3600e9}).Draw(t, "off")
		locs := []string{"UTC", "E7", "W5"}
		lt, rt2 := base, base.Add(time.Duration(off))
		far := false
		if rapid.IntRange(0, 3).Draw(t, "far_times") == 0 {
			// instants far from today (sentinels such as "never expires", historical dates, the zero time,
			// and the limits of the int64-nanosecond range): no monotonic reading can denote them
			far = true
			pool := []time.Time{
				{}, time.Date(1500, 1, 1, 0, 0, 0, 0, time.UTC), time.Date(1677, 9, 21, 0, 12, 43, 145224192, time.UTC), time.Date(1677, 9, 21, 0, 12, 43, 145224191, time.UTC),
				time.Date(1700, 1, 1, 0, 0, 0, 0, time.UTC), time.Date(1969, 12, 31, 23, 59, 59, 999999999, time.UTC), time.Unix(0, 0).UTC(), base,
				time.Date(2262, 4, 11, 23, 47, 16, 854775807, time.UTC), time.Date(2262, 4, 11, 23, 47, 16, 854775808, time.UTC), time.Date(2300, 1, 1, 0, 0, 0, 0, time.UTC),
				time.Date(9999, 12, 31, 23, 59, 59, 0, time.UTC),
			}
			lt = rapid.SampledFrom(pool).Draw(t, "lfar")
			if rapid.Bool().Draw(t, "rfar_same") {
				rt2 = lt.Add(time.Duration(rapid.SampledFrom([]int64{0, 1, -1, 1e9}).Draw(t, "far_off")))
				if y := rt2.Year(); y < 1 || y > 9999 {
					rt2 = lt // not expressible in the replay file's RFC 3339 form
				}
			} else {
				rt2 = rapid.SampledFrom(pool).Draw(t, "rfar")
			}
		}
		c.L = c19Operand{Kind: "time", T: lt.Format(time.RFC3339Nano), Loc: rapid.SampledFrom(locs).Draw(t, "lloc"),
			Mono: !far && rapid.Bool().Draw(t, "lmono"), Wrap: rapid.SampledFrom([]string{"", "", "ptr", "iface"}).Draw(t, "lw")}
		c.R = c19Operand{Kind: "time", T: rt2.Format(time.RFC3339Nano), Loc: rapid.SampledFrom(locs).Draw(t, "rloc"),
			Mono: !far && rapid.Bool().Draw(t, "rmono"), Wrap: rapid.SampledFrom([]string{"", "", "ptr", "iface"}).Draw(t, "rw")}
	}
	c.GRL = rapid.IntRange(0, 3).Draw(t, "grl") > 0
	if c.GRL {
		c.Twins = rapid.IntRange(0, 2).Draw(t, "negated_twins")
		if rapid.IntRange(0, 3).Draw(t, "literal_operand") == 0 {
			c.Lit = rapid.IntRange(1, 2).Draw(t, "literal_side")
		}
	}
	return c
}

func c19NonTrivial(c c19Case) bool {
	// non-trivial: operands of different kind, wrapper or location, or values that are equal /
	// adjacent (the boundary where the six operators must switch consistently)
	if c.L.Kind != c.R.Kind || c.L.Wrap != c.R.Wrap || c.L.Loc != c.R.Loc || c.L.Mono != c.R.Mono {
		return true
	}
	return refOrder(c) == 0
}

func TestC19(t *testing.T) {
	col := stats.New("C19", "ordered pairs of operand kinds within a family (10 integer kinds, 2 float kinds, string, bool, time), values from a boundary pool or aimed at the other operand (equal / adjacent), optionally behind pointers or interfaces; checked on pkg.Evaluate* directly, with swapped operands, and through six GRL rules over typed fact fields (in two thirds of those cases next to their negated else-twins !(L op R), which must give the complement; in a quarter of them one integer operand is written as a literal in the rule text). A tenth of the cases belong to the stepping family: one rule moves one numeric operand in three assignments (+=, -=, *=, /= or plain =) from below over equal to above the other operand while six observer rules (and optionally their operand-swapped mirrors) hold the comparisons as their conditions, so that the engine reports every comparison in every cycle; each report must follow the operands' values of that moment. Non-trivial: operands differ in kind, wrapper, location or monotonic reading, or compare equal. Distinct by the full case.",
		"unsigned values are restricted to the int64 range and NaN is excluded, as the property states",
		"the reference order is float64 promotion when a float is involved and int64 comparison otherwise (the documented arithmetic)")
	defer col.Flush()
	check(t, 0, budget(40000, 600000), func(rt *rapid.T) {
		if rapid.IntRange(0, 9).Draw(rt, "family") == 0 {
			// stepping family: an operand is assigned (in any form) between two evaluations of the comparisons
			s := genC19Step(rt)
			nt := s.LKind != s.RKind
			col.Case(gastKey(s), nt, "family:step", "pair:"+s.LKind+"/"+s.RKind, "assignment:"+s.Op, fmt.Sprintf("right_moves:%v", s.MoveRight), fmt.Sprintf("mirrors:%v", s.Mirrors))
			if col.WantSample(nt) {
				col.Sample(s, nt)
			}
			if err := c19StepRun(s); err != nil {
				if strings.HasPrefix(err.Error(), "harness:") {
					rt.Fatalf("%v", err)
				}
				path := col.Violation("C19", "C19/step/"+s.Op, err.Error(), s)
				rt.Fatalf("C19 violated: %v (replay %s)", err, path)
			}
			return
		}
		c := genC19(rt)
		key := gastKey(c)
		nt := c19NonTrivial(c)
		pairLabel := "pair:" + c.L.Kind + "/" + c.R.Kind
		if c.Family != "num" {
			pairLabel = "pair:" + c.Family
		}
		col.Case(key, nt, "family:"+c.Family, pairLabel, "wrap:"+c.L.Wrap+"/"+c.R.Wrap, fmt.Sprintf("grl:%v", c.GRL), fmt.Sprintf("order:%d", refOrder(c)))
		if col.WantSample(nt) {
			col.Sample(c, nt)
		}
		route, err := c19Run(c)
		if err != nil {
			sig := "C19/" + c.Family + "/" + route
			path := col.Violation("C19", sig, err.Error(), c)
			rt.Fatalf("C19 violated: %v (replay %s)", err, path)
		}
	})
}

func gastKey(v interface{}) string {
	b, _ := json.Marshal(v)
	return string(b)
}

func init() {
	replayers["C19"] = func(raw json.RawMessage) error {
		var fam struct {
			Family string `json:"family"`
		}
		if json.Unmarshal(raw, &fam) == nil && fam.Family == "step" {
			var s c19Step
			if err := json.Unmarshal(raw, &s); err != nil {
				return err
			}
			return c19StepRun(s)
		}
		var c c19Case
		if err := json.Unmarshal(raw, &c); err != nil {
			return err
		}
		_, err := c19Run(c)
		return err
	}
}
