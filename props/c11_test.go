package props

import (
	"bytes"
	"encoding/json"
	"fmt"
	"sort"
	"strings"
	"testing"

	"github.com/hyperjumptech/grule-rule-engine/ast"
	"pgregory.net/rapid"

	"verif/internal/facts"
	"verif/internal/gast"
	"verif/internal/obs"
	"verif/internal/ref"
	"verif/internal/stats"
	"verif/internal/val"
)

// C11: FetchMatchingRules returns exactly the satisfied rules, ordered by salience.

type c11Case struct {
	Run         *rsCase  `json:"run"`
	RemovedLib  []string `json:"removed_from_library"`
	RemovedInst []string `json:"removed_from_instance"`
	// More: facts of further FetchMatchingRules calls made on the same instance
	More []*facts.State `json:"facts_of_further_calls_on_the_same_instance,omitempty"`
	// SameDC: the further calls re-use the first call's data context; between the calls the application
	// overwrites the Go fact in place with the next facts (nested pointers, slices and maps are replaced)
	SameDC bool `json:"further_calls_on_the_same_data_context,omitempty"`
}

// c11Ctx carries the live facts and data context of a call to the next one.
type c11Ctx struct {
	live *facts.State
	dc   ast.IDataContext
	// the slice an earlier call returned and what it held then: a caller may keep it
	kept      []*ast.RuleEntry
	keptNames []string
}

func c11RefNote(ref bool) string {
	if ref {
		return "; the condition's value is the reference interpreter's, a fresh engine evaluates it to the opposite"
	}
	return ""
}

func c11Run(c *val.Case, removedLib, removedInst []string, sameDC bool, more ...*facts.State) ([]string, map[string]interface{}, error) {
	prep, err := val.Prepare(c)
	if err != nil {
		return nil, nil, err
	}
	for _, n := range removedLib {
		prep.Lib.RemoveRuleEntry(n, obs.KBName, obs.KBVersion)
	}
	useLib := prep.Lib
	if c.ViaGRB && len(removedLib) == 0 {
		// the knowledge base went through store + load first
		var buf bytes.Buffer
		if serr := storeKB(prep.Lib, &buf); serr != nil {
			return []string{fmt.Sprintf("StoreKnowledgeBaseToWriter failed: %v", serr)}, nil, nil
		}
		l2 := ast.NewKnowledgeLibrary()
		if _, lerr, pan := loadKB(buf.Bytes(), l2, true); lerr != nil || pan != nil {
			return []string{fmt.Sprintf("loading the stored knowledge base failed: %v %v", lerr, pan)}, nil, nil
		}
		useLib = l2
	}
	kb, err := obs.Instance(useLib)
	if err != nil {
		return []string{fmt.Sprintf("NewKnowledgeBaseInstance failed after removing %v from the library: %v", removedLib, err)}, nil, nil
	}
	for _, n := range removedInst {
		kb.RemoveRuleEntry(n)
	}
	cx := &c11Ctx{}
	v, info, err := c11RunOnCtx(c, prep, kb, removedLib, removedInst, cx)
	if err != nil || len(v) > 0 {
		return v, info, err
	}
	// the instance answers further calls with other facts
	for i, st := range more {
		c2 := *c
		c2.Init = st
		next := &c11Ctx{}
		if sameDC && cx.live != nil {
			// the application overwrites its fact object in place and calls again with the same data context
			for name, lf := range cx.live.Go {
				if nf := st.Go[name]; nf != nil && lf != nil {
					pr := lf.GetProbe()
					*lf = *facts.CopyFact(nf)
					lf.SetProbe(pr)
				}
			}
			next = cx
		}
		v2, _, err2 := c11RunOnCtx(&c2, prep, kb, removedLib, removedInst, next)
		if cx.kept != nil && err2 == nil {
			// another instance of the same knowledge base answers a call in between as well
			if other, oerr := obs.Instance(prep.Lib); oerr == nil {
				os := st.Copy()
				if odc, derr := obs.NewDataContext(os); derr == nil {
					_, _, _ = obs.FetchRaw(other, odc, false)
				}
			}
			var now []string
			for _, e := range cx.kept {
				if e == nil {
					now = append(now, "<nil>")
				} else {
					now = append(now, e.RuleName)
				}
			}
			if strings.Join(now, ",") != strings.Join(cx.keptNames, ",") {
				v2 = append(v2, fmt.Sprintf("the list the first call returned held %v; after later calls the same slice holds %v", cx.keptNames, now))
			}
		}
		if err2 != nil {
			return nil, info, err2
		}
		for _, m := range v2 {
			v = append(v, fmt.Sprintf("call %d on the same instance (other facts): %s", i+2, m))
		}
		if len(v) > 0 {
			break
		}
	}
	return v, info, nil
}

// c11RunOn checks one FetchMatchingRules call on the given instance.
func c11RunOn(c *val.Case, prep *val.Prepared, kb *ast.KnowledgeBase, removedLib, removedInst []string) ([]string, map[string]interface{}, error) {
	return c11RunOnCtx(c, prep, kb, removedLib, removedInst, &c11Ctx{})
}

// c11RunOnCtx is c11RunOn on the live facts and data context of cx when it holds them (otherwise they are made
// from c.Init and left in cx).
func c11RunOnCtx(c *val.Case, prep *val.Prepared, kb *ast.KnowledgeBase, removedLib, removedInst []string, cx *c11Ctx) ([]string, map[string]interface{}, error) {
	var err error
	removed := map[string]bool{}
	for _, n := range append(append([]string{}, removedLib...), removedInst...) {
		removed[n] = true
	}
	live, dc := cx.live, cx.dc
	probe := &facts.Probe{}
	if live == nil || dc == nil {
		live = c.Init.Copy()
		dc, err = obs.NewDataContext(live)
		if err != nil {
			return nil, nil, err
		}
		cx.live, cx.dc = live, dc
	}
	for _, f := range live.Go {
		f.SetProbe(probe)
	}
	before := obs.Capture(live, dc)
	// the expectation is taken on a copy of the facts in a data context of its own: whatever the data context
	// under test remembers about the fact objects cannot leak into it
	expSt := before.Copy()
	expDC, err := obs.NewDataContext(expSt)
	if err != nil {
		return nil, nil, err
	}
	// expectation from fresh single-rule engines
	want := map[string]bool{}
	failing := map[string]bool{}
	refDecided := map[string]bool{} // the reference interpreter and the fresh engine disagree: the reference decides
	for _, r := range c.Rules {
		if removed[r.Name] {
			continue
		}
		tr, terr := prep.Solo.Truth(r.Name, expSt, expDC)
		// "fails to evaluate" is also decided by the reference interpreter: a fresh engine shares the
		// evaluator with the engine under test and would hide a failure that is swallowed there
		rv, rerr := ref.New(before.Copy()).Eval(r.When)
		if terr != nil || (rerr != nil && !ref.IsUndefined(rerr)) {
			failing[r.Name] = true
			continue
		}
		// ... and so is the condition's value wherever the reference interpreter gives it one: a comparison or
		// an operator that is wrong in the evaluator is wrong in the fresh engine as well
		if rerr == nil && rv.K == ref.KBool && rv.B != tr {
			refDecided[r.Name] = true
			tr = rv.B
		}
		if tr {
			want[r.Name] = true
		}
	}
	condProbes := probe.N // truth runs in neutral mode: stays 0
	raw, ferr, pan := obs.FetchRaw(kb, dc, c.ErrOnFail)
	var names []string
	var sal []int
	for _, r := range raw {
		names = append(names, r.RuleName)
		sal = append(sal, r.Salience)
	}
	if cx.kept == nil && ferr == nil && pan == nil && len(raw) > 0 {
		cx.kept, cx.keptNames = raw, append([]string{}, names...)
	}
	info := map[string]interface{}{"returned": names, "saliences": sal, "expected": keysOf(want), "failing": keysOf(failing), "removed": keysOf(removed)}
	var v []string
	if pan != nil {
		return []string{fmt.Sprintf("FetchMatchingRules panicked: %v", pan)}, info, nil
	}
	if c.ErrOnFail {
		if len(failing) > 0 && ferr == nil {
			v = append(v, fmt.Sprintf("ReturnErrOnFailedRuleEvaluation is set and the conditions of %v fail to evaluate, but no error was returned", keysOf(failing)))
		}
		if len(failing) == 0 && ferr != nil {
			v = append(v, fmt.Sprintf("no condition fails to evaluate but an error was returned: %v", ferr))
		}
	} else if ferr != nil {
		v = append(v, fmt.Sprintf("an error was returned although ReturnErrOnFailedRuleEvaluation is not set: %v", ferr))
	}
	isRule := map[string]bool{}
	for _, r := range c.Rules {
		isRule[r.Name] = true
	}
	if ferr == nil {
		got := map[string]int{}
		for _, n := range names {
			got[n]++
		}
		for n, k := range got {
			if k > 1 {
				v = append(v, fmt.Sprintf("rule %s returned %d times", n, k))
			}
			if removed[n] || (strings.HasPrefix(n, "Deleted_") && !isRule[n]) {
				v = append(v, fmt.Sprintf("removed rule %s returned", n))
			} else if !want[n] {
				v = append(v, fmt.Sprintf("rule %s returned although its condition is not true on the facts (failing: %v%s)", n, failing[n], c11RefNote(refDecided[n])))
			}
		}
		for n := range want {
			if got[n] == 0 {
				v = append(v, fmt.Sprintf("rule %s is satisfied but was not returned%s", n, c11RefNote(refDecided[n])))
			}
		}
		for i := 1; i < len(sal); i++ {
			if sal[i] > sal[i-1] {
				v = append(v, fmt.Sprintf("not ordered by salience: %v %v", names, sal))
				break
			}
		}
		byName := map[string]*gast.Rule{}
		for _, r := range c.Rules {
			byName[r.Name] = r
		}
		for i, n := range names {
			if r, ok := byName[n]; ok && int64(sal[i]) != r.SalienceValue() {
				v = append(v, fmt.Sprintf("rule %s returned with salience %d, declared %d", n, sal[i], r.SalienceValue()))
			}
		}
	}
	after := obs.Capture(live, dc)
	if d := facts.Diff(before, after); len(d) > 0 {
		if len(d) > 5 {
			d = d[:5]
		}
		v = append(v, "the facts changed during FetchMatchingRules: "+strings.Join(d, "; "))
	}
	for _, pc := range probe.Calls[condProbes:] {
		if pc.Name == "Mark" {
			v = append(v, fmt.Sprintf("a rule action was executed during FetchMatchingRules (Mark %d)", pc.ID))
		}
	}
	return v, info, nil
}

func keysOf(m map[string]bool) []string {
	var out []string
	for k, v := range m {
		if v {
			out = append(out, k)
		}
	}
	sort.Strings(out)
	return out
}

func TestC11(t *testing.T) {
	col := stats.New("C11", "rule sets of 1-8 rules with generated conditions (true, false, and conditions that fail to evaluate: index/key out of range, missing field/fact, nil pointer, panicking/unknown method, modulo zero, kind mismatch), saliences with ties and int32 limits, action lists containing counted probe statements, and 0-2 rules removed from the library blueprint or from the instance; in half of the cases the same instance then answers 1-3 further calls with other facts; both settings of ReturnErrOnFailedRuleEvaluation. Oracle: the returned names as a multiset equal the non-removed rules whose condition is true when evaluated by a fresh single-rule engine on the same facts; saliences are non-increasing and equal the declared ones; the complete fact data is deep-equal before and after; no action probe fires; with the flag set an error is returned exactly when some non-removed rule's condition fails. The value of every condition is the reference interpreter's wherever it gives one; the fresh engines decide the rest. Non-trivial: at least 2 matching rules of different salience and at least 1 non-matching rule. Distinct by rule text + state + removed set + flag.")
	defer col.Flush()
	rc := fullRuleCfg()
	rc.Forget = false
	rc.MinRules, rc.MaxRules, rc.ExprDepth, rc.MaxActions = 1, 8, 2, 2
	rc.Marks, rc.Probes = true, true
	cfg := rsGenCfg{Rules: rc, Vary: true, GRB: true}
	check(t, 0, budget(12000, 120000), func(rt *rapid.T) {
		c, rs := genRSCase(rt, cfg)
		labels := featLabels(rs)
		// failures that depend on a location the states differ in (an index that is in range for one call's
		// facts and out of range for another's) need the hot locations
		c14Hot = rs.Hot
		defer func() { c14Hot = nil }()
		var more []*facts.State
		if rapid.IntRange(0, 1).Draw(rt, "further_calls") == 0 {
			for i, n := 0, rapid.IntRange(1, 3).Draw(rt, "nfurther"); i < n; i++ {
				more = append(more, c08GenState(rt, rs, rc.State))
			}
			labels = append(labels, "further_calls_on_the_same_instance")
		}
		injectOdds := 2 // one case in three
		if len(more) > 0 {
			injectOdds = 1 // every other case: a condition may fail for one call's facts and not for another's
		}
		if rapid.IntRange(0, injectOdds).Draw(rt, "inject_failing") == 0 {
			r := c.Rules[rapid.IntRange(0, len(c.Rules)-1).Draw(rt, "inject_rule")]
			for tries := 0; tries < 4; tries++ {
				saved := r.When
				savedThen := r.Then
				w, k := c14Inject(rt, r, c.Init)
				if w == "condition" {
					labels = append(labels, "failing_condition:"+k)
					break
				}
				r.When, r.Then = saved, savedThen
			}
			c.Text = gast.RulesString(c.Rules)
			c.Texts = nil // the resources were rendered before the injection
			for _, r := range c.Rules {
				c.SoloTexts[r.Name] = gast.RuleString(r)
			}
		}
		c.ErrOnFail = rapid.Bool().Draw(rt, "err_on_fail")
		var remLib, remInst []string
		nrem := rapid.IntRange(0, 2).Draw(rt, "nremoved")
		for i := 0; i < nrem && i < len(c.Rules); i++ {
			n := c.Rules[rapid.IntRange(0, len(c.Rules)-1).Draw(rt, "removed_rule")].Name
			dup := false
			for _, x := range append(append([]string{}, remLib...), remInst...) {
				if x == n {
					dup = true
				}
			}
			if dup {
				continue
			}
			if rapid.Bool().Draw(rt, "remove_from_library") {
				remLib = append(remLib, n)
			} else {
				remInst = append(remInst, n)
			}
		}
		sameDC := len(more) > 0 && rapid.Bool().Draw(rt, "further_calls_same_data_context")
		if sameDC {
			labels = append(labels, "further_calls_on_the_same_data_context")
		}
		v, info, err := c11Run(c, remLib, remInst, sameDC, more...)
		if err != nil {
			rt.Fatalf("harness: %v\n%s", err, c.Text)
		}
		nt := false
		if info != nil {
			exp := info["expected"].([]string)
			sals := map[int64]bool{}
			for _, n := range exp {
				for _, r := range c.Rules {
					if r.Name == n {
						sals[r.SalienceValue()] = true
					}
				}
			}
			nt = len(exp) >= 2 && len(sals) >= 2 && len(exp) < len(c.Rules)
			labels = append(labels, fmt.Sprintf("matching:%s", bucket(len(exp))))
			if len(info["failing"].([]string)) > 0 {
				labels = append(labels, "has_failing_condition")
			}
		}
		labels = append(labels, fmt.Sprintf("err_on_fail:%v", c.ErrOnFail), fmt.Sprintf("removed_lib:%d", len(remLib)), fmt.Sprintf("removed_inst:%d", len(remInst)))
		col.Case(fmt.Sprint(c.Text, c.Init.Go["F"].I64, remLib, remInst, c.ErrOnFail), nt, labels...)
		if col.WantSample(nt) {
			col.Sample(map[string]interface{}{"rules": gast.RulesString(c.Rules), "result": info}, nt)
		}
		if len(v) > 0 {
			msg := strings.Join(v, "\n") + "\n--- rules ---\n" + gast.RulesString(c.Rules) + fmt.Sprintf("%v", info)
			path := col.Violation("C11", "C11/"+firstWords(v[0]), msg, c11Case{Run: toRSCase(c), RemovedLib: remLib, RemovedInst: remInst, More: more, SameDC: sameDC})
			rt.Fatalf("C11 violated: %s (replay %s)", msg, path)
		}
	})
}

func init() {
	replayers["C11"] = func(raw json.RawMessage) error {
		var cc c11Case
		if err := json.Unmarshal(raw, &cc); err != nil {
			return err
		}
		c, err := fromRSCase(cc.Run)
		if err != nil {
			return err
		}
		for i := 0; i < 16; i++ {
			v, _, err := c11Run(c, cc.RemovedLib, cc.RemovedInst, cc.SameDC, cc.More...)
			if err != nil {
				return err
			}
			if len(v) > 0 {
				return fmt.Errorf("%s", strings.Join(v, "; "))
			}
		}
		return nil
	}
}
