package props

import (
	"encoding/json"
	"fmt"
	"reflect"
	"sort"
	"strings"
	"testing"

	"pgregory.net/rapid"

	"verif/internal/facts"
	"verif/internal/gast"
	"verif/internal/gen"
	"verif/internal/ref"
	"verif/internal/stats"
	"verif/internal/val"
)

// rsCase is the serialisable form of a validated-run case.
type rsCase struct {
	Rules       []interface{}     `json:"rules"`
	Text        string            `json:"text"`
	Texts       []string          `json:"resources,omitempty"`
	SoloTexts   map[string]string `json:"solo_texts"`
	Init        *facts.State      `json:"init"`
	MaxCycle    uint64            `json:"max_cycle"`
	ErrOnFail   bool              `json:"err_on_fail"`
	ViaGRB      bool              `json:"via_grb"`
	Listeners   int               `json:"listeners"`
	FailAt      int               `json:"probe_fail_at,omitempty"`
	FailMode    int               `json:"probe_fail_mode,omitempty"`
	Order       []string          `json:"observed_first_cycle_order,omitempty"`
	PriorInit   *facts.State      `json:"earlier_call_facts,omitempty"`
	PriorMax    uint64            `json:"earlier_call_max_cycle,omitempty"`
	PriorSame   bool              `json:"earlier_call_on_same_data_context,omitempty"`
	PriorOther  bool              `json:"earlier_call_on_another_instance,omitempty"`
	Rejected    []string          `json:"rejected_resources_offered_in_between,omitempty"`
	Batch       bool              `json:"built_through_the_batch_entry_point,omitempty"`
	NestedAt    int               `json:"nested_run_on_the_same_engine_at_probe,omitempty"`
	RemovedText string            `json:"rule_built_and_removed_again,omitempty"`
	RemovedName string            `json:"removed_rule_name,omitempty"`
	RemovedVia  string            `json:"removed_through,omitempty"`
	RefTruth    map[string]bool   `json:"condition_decided_by_reference,omitempty"`
}

func toRSCase(c *val.Case) *rsCase {
	return &rsCase{Rules: gast.EncodeRules(c.Rules), Text: c.Text, Texts: c.Texts, SoloTexts: c.SoloTexts, Init: c.Init, MaxCycle: c.MaxCycle,
		ErrOnFail: c.ErrOnFail, ViaGRB: c.ViaGRB, Listeners: c.Listeners, FailAt: c.ProbeFailAt, FailMode: int(c.ProbeMode),
		PriorInit: c.PriorInit, PriorMax: c.PriorMaxCycle, PriorSame: c.PriorSameDC, PriorOther: c.PriorOtherInstance, Rejected: c.Rejected, Batch: c.Batch, NestedAt: c.NestedAt, RemovedText: c.RemovedText, RemovedName: c.RemovedName, RemovedVia: c.RemovedVia, RefTruth: c.RefTruth}
}

func fromRSCase(r *rsCase) (*val.Case, error) {
	rules, err := gast.DecodeRules(r.Rules)
	if err != nil {
		return nil, err
	}
	return &val.Case{Rules: rules, Text: r.Text, Texts: r.Texts, SoloTexts: r.SoloTexts, Init: r.Init, MaxCycle: r.MaxCycle, ErrOnFail: r.ErrOnFail,
		ViaGRB: r.ViaGRB, Listeners: r.Listeners, ProbeFailAt: r.FailAt, ProbeMode: facts.FailMode(r.FailMode),
		PriorInit: r.PriorInit, PriorMaxCycle: r.PriorMax, PriorSameDC: r.PriorSame, PriorOtherInstance: r.PriorOther, Rejected: r.Rejected, Batch: r.Batch, NestedAt: r.NestedAt, RemovedText: r.RemovedText, RemovedName: r.RemovedName, RemovedVia: r.RemovedVia, RefTruth: r.RefTruth}, nil
}

// rsGenCfg bundles the knobs of a validated-run property.
type rsGenCfg struct {
	Rules    gen.RuleSetCfg
	MaxCycle func(rt *rapid.T) uint64
	GRB      bool // sometimes take the instance through a binary round trip
	Vary     bool
	// JSONFront: a fifth of the rule sets reach the builder through the JSON front end (a JSON rule set whose
	// when/then members are the raw GRL of the rules; description and salience stated or omitted as in the rule)
	JSONFront bool
	// Rejected: a fifth of the knowledge bases are offered, after their first resource, a resource that the
	// builder has to reject and that is made of the rule set's own material
	Rejected bool
	// RemovedSibling: a fifth of the knowledge bases get one more rule that shares conditions and actions with
	// a rule of the set and is removed again (through the library or from the instance) before anything runs
	RemovedSibling bool
}

func defaultMaxCycle(rt *rapid.T) uint64 {
	return uint64(rapid.SampledFrom([]int{1, 2, 3, 5, 8, 12, 20, 30}).Draw(rt, "maxcycle"))
}

// genRSCase generates a rule set, its text, and an initial state.
func genRSCase(rt *rapid.T, cfg rsGenCfg) (*val.Case, *gen.RuleSet) {
	rs := gen.GenRuleSet(rt, cfg.Rules)
	c := &val.Case{Rules: rs.Rules, SoloTexts: map[string]string{}, Listeners: 1}
	// text: rules in a drawn order, each rendered with legal variation
	order := rapid.Permutation(indexes(len(rs.Rules))).Draw(rt, "rule_order")
	var b strings.Builder
	var parts []string
	firstCut := 0
	// literal selectors may be spelled in any notation unless a Forget/Changed call names a variable with a selector
	selLits := !forgetNamesSelector(rs.Rules)
	for _, i := range order {
		p := gast.NewPrinter()
		if cfg.Vary {
			p.C = rchooser{rt}
			p.Vary = true
			p.VarySelLits = selLits
		}
		p.Rule(rs.Rules[i])
		t := p.String() + "\n"
		parts = append(parts, t)
		b.WriteString(t)
	}
	c.Text = b.String()
	// half of the multi-rule sets are built from several resources, one after the other (a knowledge
	// base is usually assembled that way; the working memory is re-indexed after every resource)
	if len(parts) >= 2 && rapid.Bool().Draw(rt, "several_resources") {
		cut := rapid.IntRange(1, len(parts)-1).Draw(rt, "resource_cut")
		firstCut = cut
		c.Texts = []string{strings.Join(parts[:cut], ""), strings.Join(parts[cut:], "")}
		if len(parts)-cut >= 2 && rapid.Bool().Draw(rt, "three_resources") {
			cut2 := rapid.IntRange(cut+1, len(parts)-1).Draw(rt, "resource_cut2")
			c.Texts = []string{strings.Join(parts[:cut], ""), strings.Join(parts[cut:cut2], ""), strings.Join(parts[cut2:], "")}
		}
		rs.Feat["built_from_several_resources"]++
	}
	if cfg.JSONFront && rapid.IntRange(0, 4).Draw(rt, "json_front_end") == 0 {
		var set []interface{}
		for _, i := range order {
			r := rs.Rules[i]
			m := map[string]interface{}{"name": r.Name, "when": gast.ExprString(r.When)}
			var then []interface{}
			for _, st := range r.Then {
				then = append(then, gast.StmtString(st))
			}
			m["then"] = then
			if r.Desc != nil {
				m["desc"] = *r.Desc
			}
			if r.Salience != nil {
				m["salience"] = *r.Salience
			}
			set = append(set, m)
		}
		jb, jerr := json.Marshal(set)
		if jerr != nil {
			rt.Fatalf("harness: %v", jerr)
		}
		text, terr, pan := c18Translate(string(jb))
		if terr != nil || pan != nil {
			rt.Fatalf("harness: the JSON front end does not translate a rule set of raw GRL members: %v %v\n%s", terr, pan, jb)
		}
		c.Text, c.Texts = text, nil
		rs.Feat["loaded_through_the_json_front_end"]++
	}
	if cfg.Rejected && rapid.IntRange(0, 4).Draw(rt, "rejected_resource") == 0 {
		// (made of rules of the first resource: that is the one the knowledge base holds at that moment)
		first := rs.Rules
		if len(c.Texts) > 0 {
			first = nil
			for _, i := range order[:firstCut] {
				first = append(first, rs.Rules[i])
			}
		}
		c.Rejected = []string{rejectedResource(rt, first)}
		rs.Feat["rejected_resource_offered_in_between"]++
	}
	if cfg.RemovedSibling && rapid.IntRange(0, 4).Draw(rt, "removed_sibling") == 0 {
		src := rs.Rules[rapid.IntRange(0, len(rs.Rules)-1).Draw(rt, "removed_source")]
		var when gast.Expr = gast.Clone(src.When)
		if rapid.Bool().Draw(rt, "removed_extended") {
			when = &gast.Bin{Op: gast.OpAnd, L: &gast.Paren{X: when}, R: &gast.Bin{Op: gast.OpLT, L: gast.P("F", "H"), R: gast.I(100)}}
		}
		sib := &gast.Rule{Name: "ZRemoved", When: when, Then: cloneStmts(src.Then), Salience: src.Salience}
		c.RemovedText, c.RemovedName = gast.RuleString(sib)+"\n", sib.Name
		c.RemovedVia = rapid.SampledFrom([]string{"library", "instance"}).Draw(rt, "removed_via")
		rs.Feat["rule_built_and_removed_again:"+c.RemovedVia]++
	}
	if (len(c.Texts) > 0 || len(c.Rejected) > 0) && rapid.Bool().Draw(rt, "batch_entry_point") {
		c.Batch = true
		rs.Feat["built_through_the_batch_entry_point"]++
	}
	for _, r := range rs.Rules {
		c.SoloTexts[r.Name] = gast.RuleString(r)
	}
	// state: cheap seeded background, explicit small values for the hot locations
	seed := rapid.Uint64Range(0, 1<<16).Draw(rt, "state_seed")
	st := gen.SeededState(seed, cfg.Rules.State)
	for _, h := range rs.Hot {
		if h.T == gast.TTime {
			continue
		}
		lit := gen.DrawLiteralFor(gen.R{T: rt}, h, gen.Small, "init:"+h.Text)
		if err := ref.New(st).Exec(&gast.Assign{LHS: h.Mk(), Op: "=", RHS: lit}); err != nil {
			rt.Fatalf("harness: init of %s failed: %v", h.Text, err)
		}
	}
	if cfg.Rules.Forget {
		st.Go["F"].H = int64(rapid.IntRange(0, 6).Draw(rt, "init_H"))
	}
	c.Init = st
	if cfg.MaxCycle != nil {
		c.MaxCycle = cfg.MaxCycle(rt)
	} else {
		c.MaxCycle = defaultMaxCycle(rt)
	}
	if cfg.GRB {
		c.ViaGRB = rapid.IntRange(0, 3).Draw(rt, "via_grb") == 0
	}
	return c, rs
}

// maybeUsedBefore makes a quarter of the cases run on an instance that served an earlier call (other
// facts; a budget of 1 or 2 cycles, so that the earlier call mostly ends with the cycle-limit error, or a
// normal budget): what the properties say about an execution does not depend on the instance's past.
func maybeUsedBefore(rt *rapid.T, c *val.Case, rs *gen.RuleSet, cfg gen.StateCfg) bool {
	if rapid.IntRange(0, 3).Draw(rt, "instance_used_before") != 0 {
		return false
	}
	c.PriorInit = c08GenState(rt, rs, cfg)
	c.PriorMaxCycle = uint64(rapid.SampledFrom([]int{1, 1, 2, 30}).Draw(rt, "earlier_call_max_cycle"))
	rs.Feat["instance_used_before"]++
	if rapid.IntRange(0, 2).Draw(rt, "earlier_call_same_context") == 0 {
		// the earlier call ran on the very data context of the validated call (callers do that)
		c.PriorSameDC = true
		rs.Feat["earlier_call_on_the_same_data_context"]++
		if rapid.Bool().Draw(rt, "earlier_call_other_instance") {
			// ... made with another instance of the knowledge base
			c.PriorOtherInstance = true
			rs.Feat["earlier_call_on_the_same_data_context_with_another_instance"]++
		}
	}
	return true
}

// rejectedResource renders a resource the builder must reject, made of the rule set's own material: a copy
// of one of its rules under a new name, followed by what makes the whole resource unacceptable.
func rejectedResource(rt *rapid.T, rules []*gast.Rule) string {
	src := rules[rapid.IntRange(0, len(rules)-1).Draw(rt, "rejected_source")]
	cp := &gast.Rule{Name: "ZRejected", When: gast.Clone(src.When), Then: cloneStmts(src.Then), Salience: src.Salience}
	text := gast.RuleString(cp) + "\n"
	switch rapid.IntRange(0, 3).Draw(rt, "rejected_kind") {
	case 0:
		return text + "rule ZBroken { when " + gast.ExprString(src.When) + " > then }\n"
	case 1:
		// a rule name that already exists
		return text + gast.RuleString(src) + "\n"
	case 2:
		return text + "rule ZBadLiteral { when " + gast.ExprString(src.When) + " && 99999999999999999999 > 1 then Retract(\"ZBadLiteral\"); }\n"
	default:
		return "rule ZBroken2 { when true then " + gast.StmtString(firstStmt(src)) + " }} " + text
	}
}

func firstStmt(r *gast.Rule) gast.Stmt {
	if len(r.Then) > 0 {
		return r.Then[0]
	}
	return &gast.CallStmt{X: &gast.Call{Name: "Complete"}}
}

func forgetNamesSelector(rules []*gast.Rule) bool {
	found := false
	for _, r := range rules {
		for _, st := range r.Then {
			cs, ok := st.(*gast.CallStmt)
			if !ok {
				continue
			}
			x := cs.X
			if f, ok := x.(*gast.Frozen); ok {
				x = f.X
			}
			if call, ok := x.(*gast.Call); ok && call.Recv == nil && (call.Name == "Forget" || call.Name == "Changed") && len(call.Args) == 1 {
				if l, ok := call.Args[0].(*gast.Lit); ok && strings.Contains(l.S, "[") {
					found = true
				}
			}
		}
	}
	return found
}

// maybeBareCondition makes, in an eighth of the cases, one rule's whole condition a bare boolean value of an
// unusual Go shape: a named boolean type (field or method result), a boolean behind a pointer or inside an
// interface value, a top-level variable, a JSON member.
func maybeBareCondition(rt *rapid.T, c *val.Case, rs *gen.RuleSet) {
	if rapid.IntRange(0, 7).Draw(rt, "bare_condition") != 0 {
		return
	}
	r := c.Rules[rapid.IntRange(0, len(c.Rules)-1).Draw(rt, "bare_rule")]
	conds := []gast.Expr{gast.P("F", "NB"), &gast.Call{Recv: gast.P("F"), Name: "IsNB"}, gast.P("F", "PTrue"), gast.P("F", "ATrue"), gast.P("F", "B"), gast.P("F", "AFalse")}
	k := rapid.IntRange(0, len(conds)-1).Draw(rt, "bare_kind")
	r.When = conds[k]
	if k == 0 || k == 1 || k == 4 {
		// a boolean field, a field of a named boolean type, a method returning one: the value of the condition is
		// the value of the field, and the reference decides it (the fresh engine shares the engine's final
		// "is it a boolean" test, which is part of what is checked here)
		if c.RefTruth == nil {
			c.RefTruth = map[string]bool{}
		}
		c.RefTruth[r.Name] = true
	}
	c14Rerender(c)
	rs.Feat["whole_condition_is_a_bare_boolean_of_unusual_shape"]++
}

// maybeNested lets a third of the cases with probes run another knowledge base on the same engine value from
// inside one of the first probe invocations (in a condition or an action).
func maybeNested(rt *rapid.T, c *val.Case, rs *gen.RuleSet) {
	if rapid.IntRange(0, 2).Draw(rt, "nested_run") == 0 {
		c.NestedAt = rapid.IntRange(1, 4).Draw(rt, "nested_at_probe")
		rs.Feat["nested_run_on_the_same_engine"]++
		if rapid.Bool().Draw(rt, "nested_at_every_probe") {
			// ... at every probe invocation from that one on
			c.NestedAt = -c.NestedAt
			rs.Feat["nested_run_at_every_probe_invocation"]++
		}
		if rapid.Bool().Draw(rt, "nested_probe_in_condition") {
			// make sure a probe is invoked from a condition, and again whenever a location the rules write has
			// changed: one rule's condition gets the conjunct F.PV(id, h) == h in front (true by construction; the
			// call is evaluated anew after every assignment to the hot location h)
			r := c.Rules[rapid.IntRange(0, len(c.Rules)-1).Draw(rt, "nested_probe_rule")]
			id := gast.I(int64(rapid.IntRange(0, 3).Draw(rt, "nested_probe_id")))
			var conj gast.Expr = &gast.Bin{Op: gast.OpEq, L: &gast.Call{Recv: gast.P("F"), Name: "P", Args: []gast.Expr{id}}, R: id}
			var cands []gen.PathInfo
			for _, h := range rs.Hot {
				if h.T == gast.TInt && h.Kind == reflect.Int64 && h.Backend == "go" && !h.ArithOnly && !h.Unsigned && !h.Loose {
					cands = append(cands, h)
				}
			}
			if len(cands) > 0 {
				h := cands[rapid.IntRange(0, len(cands)-1).Draw(rt, "nested_probe_hot")]
				conj = &gast.Bin{Op: gast.OpEq, L: &gast.Call{Recv: gast.P("F"), Name: "PV", Args: []gast.Expr{id, h.Mk()}}, R: h.Mk()}
			}
			r.When = &gast.Bin{Op: gast.OpAnd, L: conj, R: &gast.Paren{X: r.When}}
			c14Rerender(c)
			rs.Feat["probe_conjunct_in_front_of_a_condition"]++
		}
	}
}

func indexes(n int) []int {
	out := make([]int, n)
	for i := range out {
		out[i] = i
	}
	return out
}

var sawFailure = false

// repsFor returns how often a case is executed (every execution re-draws the engine's map order).
func repsFor() int {
	if sawFailure {
		return 24
	}
	if stats.Thorough() {
		return 3
	}
	return 2
}

// runValidated prepares and runs a case several times and returns the first report that has a
// violation of prop (or the last report).
func runValidated(rt *rapid.T, c *val.Case, prop string) (*val.Report, []string) {
	prep, err := val.Prepare(c)
	if err != nil {
		rt.Fatalf("harness: %v\n%s", err, c.Text)
	}
	var rep *val.Report
	for i := 0; i < repsFor(); i++ {
		rep = val.Run(c, prep)
		if rep.Harness != "" && len(rep.Of(prop)) == 0 {
			rt.Fatalf("harness: %s\n%s", rep.Harness, c.Text)
		}
		if v := rep.Of(prop); len(v) > 0 {
			sawFailure = true
			return rep, v
		}
	}
	return rep, nil
}

func featLabels(rs *gen.RuleSet) []string {
	var out []string
	for k := range rs.Feat {
		out = append(out, "feat:"+k)
	}
	sort.Strings(out)
	return out
}

func reportViolation(rt *rapid.T, col *stats.Collector, prop string, c *val.Case, rep *val.Report, v []string) {
	msg := strings.Join(v, "\n") + "\n--- rules ---\n" + gast.RulesString(c.Rules) + fmt.Sprintf("--- run --- max_cycle=%d ended_by=%s err=%v\ntrace: %v", c.MaxCycle, rep.EndedBy, rep.Err, strings.Join(traceHead(rep), " "))
	rc := toRSCase(c)
	path := col.Violation(prop, prop+"/"+firstWords(v[0]), msg, rc)
	rt.Fatalf("%s violated: %s (replay %s)", prop, msg, path)
}

func traceHead(rep *val.Report) []string {
	var out []string
	for i, e := range rep.Events {
		if i >= 60 {
			out = append(out, "...")
			break
		}
		out = append(out, e.String())
	}
	return out
}

func firstWords(s string) string {
	// signature: the clause without cycle numbers and rule names
	s = strings.Map(func(r rune) rune {
		if r >= '0' && r <= '9' {
			return -1
		}
		return r
	}, s)
	if i := strings.Index(s, ":"); i >= 0 && i < 12 {
		s = s[i+1:]
	}
	w := strings.Fields(s)
	if len(w) > 8 {
		w = w[:8]
	}
	return strings.Join(w, "_")
}

func registerRSReplayer(prop string) {
	replayers[prop] = func(raw json.RawMessage) error {
		var r rsCase
		if err := json.Unmarshal(raw, &r); err != nil {
			return err
		}
		c, err := fromRSCase(&r)
		if err != nil {
			return err
		}
		prep, err := val.Prepare(c)
		if err != nil {
			return fmt.Errorf("prepare: %v", err)
		}
		for i := 0; i < 64; i++ {
			rep := val.Run(c, prep)
			if v := rep.Of(prop); len(v) > 0 {
				return fmt.Errorf("%s", strings.Join(v, "; "))
			}
		}
		return nil
	}
}

func sampleOf(c *val.Case, rep *val.Report) map[string]interface{} {
	return map[string]interface{}{"rules": gast.RulesString(c.Rules), "max_cycle": c.MaxCycle, "via_grb": c.ViaGRB, "run": rep.Summary()}
}

var _ = testing.Verbose
