package props

import (
	"fmt"
	"testing"

	"pgregory.net/rapid"

	"verif/internal/stats"
	"verif/internal/val"
)

// C10: Retract and Complete have exactly their documented control effect.

func TestC10(t *testing.T) {
	col := stats.New("C10", "rule sets of 2-6 rules in which actions retract the rule itself, another rule (possibly the other current candidate), several rules or an unknown name, and call Complete() at any position of the action list, followed by further assignments; the validator keeps the model's retracted set from the action lists of the fired rules: no event may mention a retracted rule for the rest of the call, every other rule must still be evaluated each cycle with its fresh truth, the remaining actions after Complete() must be applied (reference replay), Execute must return nil and no further cycle may start. Non-trivial: a retracted rule was satisfied (fresh evaluation) at a later cycle, or Complete() was not the last action of its rule. Distinct by rule text + state.",
		"generated rule sets respect the documented memo contract (DESIGN 2.5 R1-R4)")
	defer col.Flush()
	rc := fullRuleCfg()
	rc.MinRules, rc.MaxRules, rc.MaxActions, rc.ExprDepth = 2, 6, 4, 2
	rc.Forget = false
	cfg := rsGenCfg{Rules: rc, Vary: true, JSONFront: true, GRB: true}
	check(t, 0, budget(6000, 80000), func(rt *rapid.T) {
		c, rs := genRSCase(rt, cfg)
		maybeFailingConditions(rt, c, rs)
		if maybeUsedBefore(rt, c, rs, cfg.Rules.State) {
			c.PriorMaxCycle = 30 // let the earlier call reach its own Retract / Complete
		}
		c.TruthAll = true
		rep, v := runValidated(rt, c, "C10")
		nt := rep.RetractedTrueLater || (rep.Completed && rep.CompleteNotLast)
		labels := append(featLabels(rs), "ended:"+rep.EndedBy, "firings:"+bucket(rep.Firings))
		if rep.RetractedTrueLater {
			labels = append(labels, "retracted_rule_true_later")
		}
		if rep.Completed && rep.CompleteNotLast {
			labels = append(labels, "complete_not_last_action")
		}
		if len(rep.Retracted) >= 2 {
			labels = append(labels, "several_rules_retracted")
		}
		if rep.Excluded != "" {
			labels = append(labels, "excluded_out_of_quantifier")
		}
		col.Case(c.Text+fmt.Sprint(c.Init.Go["F"].I64, c.MaxCycle), nt, labels...)
		if col.WantSample(nt) {
			col.Sample(sampleOf(c, rep), nt)
		}
		if len(v) > 0 {
			reportViolation(rt, col, "C10", c, rep, v)
		}
		// the same data context used for a second Execute (callers do re-use contexts): whatever the
		// first call left behind, a Complete() or Retract() called during the second call must have
		// its effect in that call. Only the retract/complete clauses are looked at here.
		if rapid.IntRange(0, 2).Draw(rt, "reuse_data_context") == 0 && rep.Harness == "" && rep.DC != nil {
			prep, perr := val.Prepare(c)
			if perr != nil {
				rt.Fatalf("harness: %v", perr)
			}
			c2 := *c
			c2.ReuseLive, c2.ReuseDC = rep.Live, rep.DC
			rep2 := val.Run(&c2, prep)
			labels2 := []string{"data_context_reused", "first_call_ended:" + rep.EndedBy, "second_call_ended:" + rep2.EndedBy}
			nt2 := rep.Completed && rep2.Completed
			if nt2 {
				labels2 = append(labels2, "complete_in_both_calls")
			}
			col.Case(c.Text+fmt.Sprint(c.Init.Go["F"].I64, c.MaxCycle, "reuse"), nt2, labels2...)
			if v2 := rep2.Of("C10"); len(v2) > 0 && rep2.Excluded == "" {
				for i := range v2 {
					v2[i] = "second Execute on the same data context: " + v2[i]
				}
				reportViolation(rt, col, "C10", c, rep2, v2)
			}
		}
	})
}

func init() { registerRSReplayer("C10") }
