package props

import (
	"fmt"
	"testing"

	"pgregory.net/rapid"

	"verif/internal/gen"
	"verif/internal/stats"
)

// C01: a rule fires only when it is active and its condition holds on the current facts.

func fullRuleCfg() gen.RuleSetCfg {
	return gen.RuleSetCfg{
		State:    gen.StateCfg{D: gen.Small, JSON: true, Top: true},
		MinRules: 1, MaxRules: 6, MinHot: 2, MaxHot: 5, MaxActions: 3, ExprDepth: 3,
		Retract: true, Complete: true, Forget: true, ConvWrites: true,
	}
}

func TestC01(t *testing.T) {
	col := stats.New("C01", "rule sets of 1-6 rules generated around 2-5 hot locations (every addressing form: fields of all numeric widths, nested pointer / value struct / interface, slices, maps, JSON members, top-level variables, pointer-to-number), conditions of depth <= 3 over them, actions with all five assignment forms, Retract, Complete, hidden-state mutators announced with Forget/Changed; instances taken directly or through a binary round trip; every execution event is checked: the rule is active in the model and its condition, evaluated by a fresh single-rule engine on the real facts of that moment, is true. Non-trivial: some rule's fresh truth flipped true->false between two evaluations of the run. Distinct by rule text + initial state seed.",
		"generated rule sets respect the documented memo contract (DESIGN 2.5 R1-R4): pure methods or announced changes, no aliasing spellings of written locations",
		"the engine's map iteration order cannot be seeded: every case is executed 2-3 times (24 times once a failure was seen)")
	defer col.Flush()
	cfg := rsGenCfg{Rules: fullRuleCfg(), GRB: true, Vary: true, JSONFront: true, Rejected: true, RemovedSibling: true}
	check(t, 0, budget(6000, 80000), func(rt *rapid.T) {
		c, rs := genRSCase(rt, cfg)
		maybeFailingConditions(rt, c, rs)
		maybeBareCondition(rt, c, rs)
		maybeUsedBefore(rt, c, rs, cfg.Rules.State)
		rep, v := runValidated(rt, c, "C01")
		nt := rep.FlipsTF > 0
		labels := append(featLabels(rs), "ended:"+rep.EndedBy, fmt.Sprintf("grb:%v", c.ViaGRB), "firings:"+bucket(rep.Firings))
		if rep.Excluded != "" {
			labels = append(labels, "excluded_out_of_quantifier")
		}
		if len(rep.Retracted) > 0 {
			labels = append(labels, "retraction_happened")
		}
		col.Case(c.Text+fmt.Sprint(c.Init.Go["F"].I64, c.MaxCycle), nt, labels...)
		if col.WantSample(nt) {
			col.Sample(sampleOf(c, rep), nt)
		}
		if len(v) > 0 {
			reportViolation(rt, col, "C01", c, rep, v)
		}
	})
}

func init() { registerRSReplayer("C01") }
