package props

import (
	"encoding/json"
	"flag"
	"fmt"
	"os"
	"strconv"
	"testing"
	"time"

	"pgregory.net/rapid"

	"verif/internal/stats"
)

func TestMain(m *testing.M) {
	time.Local = time.UTC
	os.Exit(m.Run())
}

// budget returns the number of rapid checks for this process: the tier's total divided over
// the shards.
func budget(quick, thorough int) int {
	n := quick
	if stats.Thorough() {
		n = thorough
	}
	_, shards := stats.ShardIndex()
	per := (n + shards - 1) / shards
	if per < 1 {
		per = 1
	}
	return per
}

// seedFor derives a non-zero rapid seed from VERIF_SEED, the shard and a sub-check index.
func seedFor(sub int) uint64 {
	shard, _ := stats.ShardIndex()
	s := uint64(stats.Seed())*1000003 + uint64(shard)*7919 + uint64(sub)*104729 + 12345
	s &= (1 << 62) - 1
	if s == 0 {
		s = 1
	}
	return s
}

// check runs one rapid property with the given budget and a seed that is a pure function of
// (VERIF_SEED, shard, sub).
func check(t *testing.T, sub int, checks int, prop func(*rapid.T)) {
	t.Helper()
	_ = flag.Set("rapid.checks", strconv.Itoa(checks))
	_ = flag.Set("rapid.seed", strconv.FormatUint(seedFor(sub), 10))
	if stats.Thorough() {
		_ = flag.Set("rapid.shrinktime", "60s")
	} else {
		_ = flag.Set("rapid.shrinktime", "20s")
	}
	rapid.Check(t, prop)
}

// rchooser adapts rapid to the printer's Chooser.
type rchooser struct{ t *rapid.T }

func (c rchooser) Choose(n int, label string) int {
	return rapid.IntRange(0, n-1).Draw(c.t, label)
}

// replayers maps a property to the function that re-runs a saved case without rapid.
var replayers = map[string]func(raw json.RawMessage) error{}

// TestReplay re-executes the case in VERIF_REPLAY_FILE.
func TestReplay(t *testing.T) {
	path := os.Getenv("VERIF_REPLAY_FILE")
	if path == "" {
		t.Skip("no replay file")
	}
	b, err := os.ReadFile(path)
	if err != nil {
		t.Fatalf("read: %v", err)
	}
	var doc struct {
		Property string          `json:"property"`
		Case     json.RawMessage `json:"case"`
	}
	if err := json.Unmarshal(b, &doc); err != nil {
		t.Fatalf("decode: %v", err)
	}
	fn, ok := replayers[doc.Property]
	if !ok {
		t.Fatalf("no replayer for %s", doc.Property)
	}
	if err := fn(doc.Case); err != nil {
		fmt.Printf("REPLAY-VIOLATION property=%s: %v\n", doc.Property, err)
		return
	}
	fmt.Printf("REPLAY-OK property=%s\n", doc.Property)
}
