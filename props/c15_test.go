package props

import (
	"context"
	"encoding/json"
	"errors"
	"fmt"
	"github.com/hyperjumptech/grule-rule-engine/ast"
	"strings"
	"testing"
	"time"

	"github.com/hyperjumptech/grule-rule-engine/engine"
	"pgregory.net/rapid"

	"verif/internal/facts"
	"verif/internal/gast"
	"verif/internal/obs"
	"verif/internal/ref"
	"verif/internal/stats"
	"verif/internal/val"
)

// C15: cancellation stops the run before any further rule fires.

// countingCtx is a context whose Err()/Done() flip at the k-th Err() call.
type countingCtx struct {
	calls    int
	flipAt   int
	flipped  bool
	done     chan struct{}
	onFlip   func()
	deadline time.Time // a deadline far in the future, when the context is to carry one
	flipErr  error     // what Err() reports once flipped (default context.Canceled)
}

// expire ends the context the way a passing deadline does.
func (c *countingCtx) expire() {
	if c.flipped {
		return
	}
	c.flipped = true
	c.flipErr = context.DeadlineExceeded
	c.deadline = time.Now().Add(-time.Millisecond)
	close(c.done)
}

func newCountingCtx(flipAt int) *countingCtx {
	return &countingCtx{flipAt: flipAt, done: make(chan struct{})}
}

func (c *countingCtx) Deadline() (time.Time, bool)   { return c.deadline, !c.deadline.IsZero() }
func (c *countingCtx) Done() <-chan struct{}         { return c.done }
func (c *countingCtx) Value(interface{}) interface{} { return nil }
func (c *countingCtx) Err() error {
	c.calls++
	if !c.flipped && c.flipAt > 0 && c.calls >= c.flipAt {
		c.flipped = true
		close(c.done)
		if c.onFlip != nil {
			c.onFlip()
		}
	}
	if c.flipped {
		if c.flipErr != nil {
			return c.flipErr
		}
		return context.Canceled
	}
	return nil
}

type c15Point struct {
	Kind string `json:"kind"` // "errcall", "event", "probe", "pre", "deadline", "none"
	K    int    `json:"k"`
	// DL: the context additionally carries a deadline one hour in the future (a WithTimeout
	// context, or a cancellable child of one); the cancellation itself is explicit as before.
	DL bool `json:"future_deadline,omitempty"`
	// Expire: the context ends at this point because its deadline passes (Err() = DeadlineExceeded)
	// instead of by an explicit cancel().
	Expire bool `json:"ends_by_deadline,omitempty"`
	// Nested: at this probe invocation (counted from 1; 0 = never) the fact method runs another knowledge base
	// to its end on the same GruleEngine value with plain Execute, before the outer run goes on
	Nested int `json:"nested_run_on_the_same_engine_at_probe,omitempty"`
	// Cause: the context is one of package context's cause-carrying kinds (WithCancelCause, WithDeadlineCause,
	// WithTimeoutCause) and ends with an application cause of its own; its Err() is Canceled / DeadlineExceeded
	// all the same, and that is what Execute has to return
	Cause bool `json:"context_carries_a_cause,omitempty"`
}

var errC15Cause = errors.New("service is shutting down")

type c15Result struct {
	Err        error
	Panicked   interface{}
	Events     []obs.Event
	Cancelled  bool
	CancelIdx  int // number of events recorded when cancellation happened
	AtCancel   *facts.State
	Final      *facts.State
	InFiringOf string
	FiringPre  *facts.State
	ErrCalls   int
	Probes     int
	CtxErr     error
	Firings    int
}

func c15Run(c *val.Case, prep *val.Prepared, pt c15Point) (*c15Result, error) {
	kb, err := obs.Instance(prep.Lib)
	if err != nil {
		return nil, err
	}
	live := c.Init.Copy()
	probe := &facts.Probe{}
	for _, f := range live.Go {
		f.SetProbe(probe)
	}
	dc, err := obs.NewDataContext(live)
	if err != nil {
		return nil, err
	}
	res := &c15Result{}
	rec := &obs.Recorder{}
	var ctx context.Context
	var cancel context.CancelFunc
	var cctx *countingCtx
	lastExec := ""
	var lastExecPre *facts.State
	markCancel := func() {
		if res.Cancelled {
			return
		}
		res.Cancelled = true
		res.CancelIdx = len(rec.Events)
		res.AtCancel = obs.Capture(live, dc)
		res.InFiringOf = lastExec
		res.FiringPre = lastExecPre
	}
	switch pt.Kind {
	case "errcall", "none":
		cctx = newCountingCtx(pt.K)
		if pt.DL {
			cctx.deadline = time.Now().Add(time.Hour)
		}
		if pt.Expire {
			cctx.flipErr = context.DeadlineExceeded
			cctx.deadline = time.Now().Add(-time.Millisecond) // has passed by the time anyone asks
		}
		cctx.onFlip = func() {
			// an Err() call is never made from inside an action list
			lastExec = ""
			markCancel()
		}
		ctx = cctx
	case "pre":
		if pt.Cause {
			parent := context.Background()
			if pt.DL {
				var pc context.CancelFunc
				parent, pc = context.WithTimeoutCause(parent, time.Hour, errC15Cause)
				defer pc()
			}
			cctx, cc := context.WithCancelCause(parent)
			ctx, cancel = cctx, func() { cc(errC15Cause) }
		} else if pt.DL {
			ctx, cancel = context.WithTimeout(context.Background(), time.Hour)
		} else {
			ctx, cancel = context.WithCancel(context.Background())
		}
		cancel()
		res.Cancelled = true
		res.AtCancel = obs.Capture(live, dc)
	case "deadline":
		if pt.Cause {
			ctx, cancel = context.WithDeadlineCause(context.Background(), time.Now().Add(-time.Hour), errC15Cause)
		} else {
			ctx, cancel = context.WithDeadline(context.Background(), time.Now().Add(-time.Hour))
		}
		defer cancel()
		res.Cancelled = true
		res.AtCancel = obs.Capture(live, dc)
	default:
		if pt.Expire {
			// a context whose deadline passes exactly at the point
			ectx := newCountingCtx(0)
			ectx.deadline = time.Now().Add(time.Hour)
			ctx, cancel = ectx, ectx.expire
		} else if pt.Cause {
			parent := context.Background()
			if pt.DL {
				var pc context.CancelFunc
				parent, pc = context.WithTimeoutCause(parent, time.Hour, errC15Cause)
				defer pc()
			}
			cctx, cc := context.WithCancelCause(parent)
			ctx, cancel = cctx, func() { cc(errC15Cause) }
		} else if pt.DL {
			// a cancellable child of a context with a far deadline
			parent, pcancel := context.WithTimeout(context.Background(), time.Hour)
			defer pcancel()
			if pt.K%2 == 0 {
				ctx, cancel = context.WithCancel(parent)
			} else {
				ctx, cancel = parent, pcancel
			}
		} else {
			ctx, cancel = context.WithCancel(context.Background())
		}
		defer cancel()
	}
	nEvents := 0
	rec.Hook = func(ev *obs.Event) {
		switch ev.Kind {
		case obs.EvBegin:
			lastExec, lastExecPre = "", nil
		case obs.EvExec:
			res.Firings++
		}
		if ev.Kind != obs.EvProbe {
			nEvents++
			if pt.Kind == "event" && nEvents == pt.K {
				// cancelling from the execution event: the rule's actions have not started
				lastExec, lastExecPre = "", nil
				markCancel()
				cancel()
			}
			if ev.Kind == obs.EvExec {
				lastExec = ev.Rule
				lastExecPre = obs.Capture(live, dc)
			}
		}
	}
	eng := engine.NewGruleEngine()
	nestedDone := false
	probe.OnCall = func(name string, id int64, n int) {
		if pt.Nested > 0 && n == pt.Nested && !nestedDone {
			nestedDone = true
			rec.Mute = true
			c15NestedRun(eng)
			rec.Mute = false
		}
		rec.Probe(name, id, n)
		if pt.Kind == "probe" && n == pt.K {
			markCancel()
			cancel()
		}
	}
	eng.MaxCycle = c.MaxCycle
	eng.ReturnErrOnFailedRuleEvaluation = c.ErrOnFail
	eng.Listeners = []engine.GruleEngineListener{rec}
	func() {
		defer func() {
			if r := recover(); r != nil {
				res.Panicked = r
			}
		}()
		res.Err = eng.ExecuteWithContext(ctx, dc, kb)
	}()
	res.Events = rec.Events
	res.Final = obs.Capture(live, dc)
	res.Probes = probe.N
	if cctx != nil {
		res.ErrCalls = cctx.calls
	}
	res.CtxErr = ctx.Err()
	return res, nil
}

var c15InnerLib *ast.KnowledgeLibrary

// c15NestedRun executes a small knowledge base of its own to quiescence on the given engine (plain Execute,
// i.e. with a background context), the way a fact method may do from inside a rule action or condition.
func c15NestedRun(eng *engine.GruleEngine) {
	if c15InnerLib == nil {
		lib, err := obs.Build("rule Inner1 salience 2 { when F.I64 < 3 then F.I64 = F.I64 + 1; }\nrule Inner2 { when F.I64 == 3 && F.I32 == 0 then F.I32 = 1; }\n")
		if err != nil {
			panic("harness: inner rule set: " + err.Error())
		}
		c15InnerLib = lib
	}
	kb, err := obs.Instance(c15InnerLib)
	if err != nil {
		panic("harness: inner instance: " + err.Error())
	}
	dc := ast.NewDataContext()
	if err := dc.Add("F", &facts.Fact{}); err != nil {
		panic("harness: " + err.Error())
	}
	saved := eng.MaxCycle
	eng.MaxCycle = 20
	_ = eng.Execute(dc, kb)
	eng.MaxCycle = saved
}

func c15Check(c *val.Case, pt c15Point, r *c15Result) []string {
	var v []string
	if r.Panicked != nil {
		return []string{fmt.Sprintf("a panic escaped ExecuteWithContext: %v", r.Panicked)}
	}
	if !r.Cancelled {
		return nil // the point was not reached in this run (evaluation order varies)
	}
	// events after the cancellation point
	var later []obs.Event
	for i := r.CancelIdx; i < len(r.Events); i++ {
		if r.Events[i].Kind != obs.EvProbe {
			later = append(later, r.Events[i])
		}
	}
	if pt.Kind == "event" && len(later) > 0 {
		// the event during which cancel() was called is itself in the list
		later = later[1:]
	}
	switch {
	case r.Err == nil:
		// tolerated only when the cancellation came during or after the very last evaluation, i.e.
		// nothing was left to stop: no further event and no state change
		// (and the run ended through Complete(): the engine leaves its loop right after the completing rule)
		completed := false
		if r.InFiringOf != "" {
			for _, x := range c.Rules {
				if x.Name == r.InFiringOf && strings.Contains(gast.RuleString(x), "Complete()") {
					completed = true
				}
			}
		}
		if len(later) > 0 || pt.Kind == "pre" || pt.Kind == "deadline" || (r.InFiringOf != "" && !completed) {
			v = append(v, fmt.Sprintf("the context was cancelled (%s %d) but Execute returned nil after %d further event(s)", pt.Kind, pt.K, len(later)))
		}
	case !errors.Is(r.Err, r.CtxErr):
		if !(val.IsCycleLimitErr(r.Err) && len(later) == 0) {
			v = append(v, fmt.Sprintf("the context was cancelled (%s %d) but Execute returned an error that is not the context's error: %v", pt.Kind, pt.K, r.Err))
		}
	}
	if pt.Kind == "pre" || pt.Kind == "deadline" {
		if len(r.Events) > 0 {
			v = append(v, fmt.Sprintf("an already cancelled context still produced events: %v", obs.TraceString(r.Events)))
		}
	}
	// action side effects after the cancellation point
	if r.InFiringOf == "" {
		if d := facts.Diff(r.AtCancel, r.Final); len(d) > 0 {
			if len(d) > 5 {
				d = d[:5]
			}
			v = append(v, fmt.Sprintf("rule actions took effect after the cancellation (%s %d): %s", pt.Kind, pt.K, strings.Join(d, "; ")))
		}
	} else {
		var rule *gast.Rule
		for _, x := range c.Rules {
			if x.Name == r.InFiringOf {
				rule = x
			}
		}
		matched := false
		var diff []string
		for j := 0; j <= len(rule.Then); j++ {
			model := r.FiringPre.Copy()
			if _, err := ref.New(model).ExecAll(rule.Then[:j]); err != nil {
				if ref.IsUndefined(err) {
					matched = true
				}
				break
			}
			d := facts.Diff(model, r.Final)
			if len(d) == 0 {
				matched = true
				break
			}
			diff = d
		}
		if !matched {
			if len(diff) > 5 {
				diff = diff[:5]
			}
			v = append(v, fmt.Sprintf("after cancellation inside an action of rule %s the final facts are not explained by that rule's own actions: %s", r.InFiringOf, strings.Join(diff, "; ")))
		}
	}
	return v
}

type c15Replay struct {
	Run   *rsCase  `json:"run"`
	Point c15Point `json:"point"`
}

func TestC15(t *testing.T) {
	col := stats.New("C15", "rule sets with counted probes in conditions and actions; an un-cancelled baseline run counts the engine's ctx.Err() calls n, the listener events m and the probe invocations p; cancellation points are then enumerated, not timed: (a) a counting context whose Err()/Done() flip at the k-th Err() call, k = 1..n+1 (this reaches every check-point the engine has: before the first cycle, between two evaluations, on entry of a rule evaluation, on entry of a rule execution, between cycles), (b) cancel() called from inside the j-th listener event and from inside the q-th probe invocation (in a condition or in an action), (c) a context cancelled before the call, (d) an expired deadline; every point of (a)-(c) also with a context that additionally carries a deadline one hour in the future (WithTimeout, a cancellable child of it, or the counting context reporting one), and every point of (a)-(b) also with a context that ends at that point because its deadline passes (Err() = DeadlineExceeded), and with another knowledge base run to its end on the same GruleEngine value from inside the first probe invocation. All points in the thorough tier, up to 30 per case in quick. Oracle: the call returns an error matching the context's error (nil is tolerated only if nothing at all happened after the cancellation); the fact data at return equals the data captured at the cancellation point, except when the cancellation happened inside an action list, where it must equal the reference replay of a prefix of that rule's own actions; an already cancelled context produces no event. The ExecuteRuleEntry event is deliberately not counted as an action start (the engine emits it before the action's own context check). Every point with a context of package context is run once more with a cause-carrying context (WithCancelCause / WithDeadlineCause / WithTimeoutCause, ended with an application cause). Non-trivial: cancellation landed after at least one firing and was reached. Distinct by rule text + state + point.",
		"physical timing is replaced by logical cancellation points; a cancellation that arrives between two check-points is represented by the next check-point")
	defer col.Flush()
	rc := fullRuleCfg()
	rc.Forget = false
	rc.Probes, rc.Marks = true, true
	cfg := rsGenCfg{Rules: rc, Vary: true, MaxCycle: func(rt *rapid.T) uint64 { return uint64(rapid.IntRange(1, 6).Draw(rt, "maxcycle")) }}
	exhaustiveAll := true
	check(t, 0, budget(1000, 9000), func(rt *rapid.T) {
		c, rs := genRSCase(rt, cfg)
		// a quarter of the rule sets are of the run-once kind: every rule retracts itself, so that after the last
		// firing no active rule is left
		if rapid.IntRange(0, 3).Draw(rt, "run_once_rules") == 0 {
			for _, r := range c.Rules {
				r.Then = append(r.Then, &gast.CallStmt{X: &gast.Call{Name: "Retract", Args: []gast.Expr{gast.S(r.Name)}}})
			}
			c14Rerender(c)
			rs.Feat["every_rule_retracts_itself"]++
		}
		c.ErrOnFail = rapid.IntRange(0, 3).Draw(rt, "err_on_fail") == 0
		prep, err := val.Prepare(c)
		if err != nil {
			rt.Fatalf("harness: %v\n%s", err, c.Text)
		}
		base, err := c15Run(c, prep, c15Point{Kind: "none"})
		if err != nil {
			rt.Fatalf("harness: %v", err)
		}
		var pts []c15Point
		for k := 1; k <= base.ErrCalls+1; k++ {
			pts = append(pts, c15Point{Kind: "errcall", K: k})
		}
		m := 0
		for _, e := range base.Events {
			if e.Kind != obs.EvProbe {
				m++
			}
		}
		for j := 1; j <= m; j++ {
			pts = append(pts, c15Point{Kind: "event", K: j})
		}
		for q := 1; q <= base.Probes; q++ {
			pts = append(pts, c15Point{Kind: "probe", K: q})
		}
		pts = append(pts, c15Point{Kind: "pre"}, c15Point{Kind: "deadline"})
		// every point once more with a context that also carries a deadline far in the future
		for _, p := range append([]c15Point{}, pts...) {
			if p.Kind != "deadline" {
				p.DL = true
				pts = append(pts, p)
			}
		}
		// and the points of (a) and (b) once more with a context that ends there because its deadline passes
		for _, p := range append([]c15Point{}, pts...) {
			if !p.DL && (p.Kind == "errcall" || p.Kind == "event" || p.Kind == "probe") {
				p.Expire = true
				pts = append(pts, p)
			}
		}
		// and every point with a context of package context once more with a cause-carrying context
		for _, p := range append([]c15Point{}, pts...) {
			if !p.Expire && (p.Kind == "event" || p.Kind == "probe" || p.Kind == "pre" || p.Kind == "deadline") {
				p.Cause = true
				pts = append(pts, p)
			}
		}
		// and the points of (a) and (b) once more with a nested run on the same engine value at the first probe
		// invocation (the engine value holds no per-run state, so runs may nest or overlap)
		if base.Probes >= 1 {
			for _, p := range append([]c15Point{}, pts...) {
				if !p.DL && !p.Expire && !p.Cause && (p.Kind == "errcall" || p.Kind == "event" || p.Kind == "probe") {
					p.Nested = 1
					pts = append(pts, p)
				}
			}
		}
		if !stats.Thorough() && len(pts) > 30 {
			exhaustiveAll = false
			perm := rapid.Permutation(indexes(len(pts))).Draw(rt, "points")
			var sel []c15Point
			for _, i := range perm[:30] {
				sel = append(sel, pts[i])
			}
			pts = sel
		}
		for _, pt := range pts {
			var r *c15Result
			var v []string
			for i := 0; i < repsFor(); i++ {
				r, err = c15Run(c, prep, pt)
				if err != nil {
					rt.Fatalf("harness: %v", err)
				}
				v = c15Check(c, pt, r)
				if len(v) > 0 {
					sawFailure = true
					break
				}
			}
			firingsBefore := 0
			for i := 0; i < r.CancelIdx && i < len(r.Events); i++ {
				if r.Events[i].Kind == obs.EvExec {
					firingsBefore++
				}
			}
			nt := r.Cancelled && firingsBefore >= 1
			labels := append(featLabels(rs), "point:"+pt.Kind, fmt.Sprintf("reached:%v", r.Cancelled), fmt.Sprintf("future_deadline:%v", pt.DL), fmt.Sprintf("ends_by_deadline:%v", pt.Expire), fmt.Sprintf("nested_run:%v", pt.Nested > 0), fmt.Sprintf("cause_carrying_context:%v", pt.Cause))
			if r.InFiringOf != "" {
				labels = append(labels, "cancelled_inside_action_list")
			}
			if r.Cancelled && r.Err == nil {
				labels = append(labels, "nil_at_natural_end")
			}
			col.Case(fmt.Sprint(c.Text, c.Init.Go["F"].I64, c.MaxCycle, pt), nt, labels...)
			col.AddExtra("cancellation_points_enumerated", 1)
			if col.WantSample(nt) {
				errs := ""
				if r.Err != nil {
					errs = r.Err.Error()
				}
				col.Sample(map[string]interface{}{"rules": gast.RulesString(c.Rules), "point": pt, "events_before_cancel": r.CancelIdx, "trace": obs.TraceString(r.Events), "returned": errs}, nt)
			}
			if len(v) > 0 {
				msg := strings.Join(v, "\n") + "\n--- rules ---\n" + gast.RulesString(c.Rules) + fmt.Sprintf("point=%v err=%v\ntrace: %v", pt, r.Err, obs.TraceString(r.Events))
				path := col.Violation("C15", "C15/"+pt.Kind, msg, c15Replay{Run: toRSCase(c), Point: pt})
				rt.Fatalf("C15 violated: %s (replay %s)", msg, path)
			}
		}
	})
	col.Extra("cancellation_enumeration_per_case_exhaustive", exhaustiveAll)
}

func init() {
	replayers["C15"] = func(raw json.RawMessage) error {
		var r c15Replay
		if err := json.Unmarshal(raw, &r); err != nil {
			return err
		}
		c, err := fromRSCase(r.Run)
		if err != nil {
			return err
		}
		prep, err := val.Prepare(c)
		if err != nil {
			return err
		}
		for i := 0; i < 64; i++ {
			res, err := c15Run(c, prep, r.Point)
			if err != nil {
				return err
			}
			if v := c15Check(c, r.Point, res); len(v) > 0 {
				return fmt.Errorf("%s", strings.Join(v, "; "))
			}
		}
		return nil
	}
}
