package props

import (
	"bytes"
	"fmt"
	"strings"
	"testing"
	"time"

	"github.com/hyperjumptech/grule-rule-engine/ast"
	"pgregory.net/rapid"

	"verif/internal/facts"
	"verif/internal/gen"
	"verif/internal/obs"
	"verif/internal/stats"
)

// C12, clock family: expressions that mention no fact at all but are not constant (the built-in Now()) are
// remembered like any other expression and forgotten at the start of every Execute and by Forget("Now()").
// A loaded knowledge base has to do the same as the stored one: an instance that is used again reads the
// clock again.

type c12ClockCase struct {
	Family  string `json:"family"`
	Text    string `json:"text"`
	Calls   int    `json:"executes_on_one_instance"`
	Cycles  int    `json:"cycles_per_execute"`
	Forget  bool   `json:"forget_now_between_cycles"`
	Variant string `json:"knowledge_base"` // "stored", "loaded", "loaded twice"
}

func c12ClockRun(cc *c12ClockCase) ([]string, error) {
	lib, err := obs.Build(cc.Text)
	if err != nil {
		return nil, fmt.Errorf("build: %v", err)
	}
	use := lib
	for i, n := 0, map[string]int{"stored": 0, "loaded": 1, "loaded twice": 2}[cc.Variant]; i < n; i++ {
		var buf bytes.Buffer
		if err := storeKB(use, &buf); err != nil {
			return []string{fmt.Sprintf("StoreKnowledgeBaseToWriter failed: %v", err)}, nil
		}
		l2 := ast.NewKnowledgeLibrary()
		if _, lerr, pan := loadKB(buf.Bytes(), l2, true); lerr != nil || pan != nil {
			return []string{fmt.Sprintf("loading the stored knowledge base failed: %v %v", lerr, pan)}, nil
		}
		use = l2
	}
	kb, err := obs.Instance(use)
	if err != nil {
		return []string{fmt.Sprintf("NewKnowledgeBaseInstance failed on the %s knowledge base: %v", cc.Variant, err)}, nil
	}
	var v []string
	for call := 1; call <= cc.Calls; call++ {
		st := gen.SeededState(uint64(call), gen.StateCfg{D: gen.Small})
		f := st.Go["F"]
		f.H, f.I64 = 0, 0
		f.SetProbe(&facts.Probe{})
		dc, derr := obs.NewDataContext(st)
		if derr != nil {
			return nil, derr
		}
		rec := &obs.Recorder{}
		// the start of the cycle in which Stamp fired last
		var cycleBegin, lastFiringCycleBegin int64
		rec.Hook = func(ev *obs.Event) {
			switch {
			case ev.Kind == obs.EvBegin:
				cycleBegin = time.Now().UnixNano()
			case ev.Kind == obs.EvExec && ev.Rule == "Stamp":
				lastFiringCycleBegin = cycleBegin
			}
		}
		start := time.Now().UnixNano()
		res := obs.Execute(kb, dc, obs.RunOpts{MaxCycle: uint64(cc.Cycles + 3), Listeners: listenersOf(rec)})
		if res.Err != nil || res.Panicked != nil {
			return []string{fmt.Sprintf("%s knowledge base, call %d: Execute failed: %v %v", cc.Variant, call, res.Err, res.Panicked)}, nil
		}
		if f.H != int64(cc.Cycles) {
			v = append(v, fmt.Sprintf("%s knowledge base, call %d on the instance: rule Stamp fired %d time(s), expected %d", cc.Variant, call, f.H, cc.Cycles))
			continue
		}
		if f.I64 < start {
			v = append(v, fmt.Sprintf("%s knowledge base, call %d on the same instance: the fact was stamped with Now() = %d, an instant %v before this Execute started (the value of an earlier call is remembered)", cc.Variant, call, f.I64, time.Duration(start-f.I64)))
		}
		if cc.Forget && cc.Cycles > 1 && f.I64 < lastFiringCycleBegin {
			// Forget("Now()") after every stamp: the last firing's cycle reads the clock again
			v = append(v, fmt.Sprintf("%s knowledge base, call %d: Forget(\"Now()\") was called after every stamp, yet the last stamp %d lies %v before the cycle of the last firing began", cc.Variant, call, f.I64, time.Duration(lastFiringCycleBegin-f.I64)))
		}
	}
	return v, nil
}

func c12ClockFamily(t *testing.T, col *stats.Collector) {
	check(t, 3, budget(60, 400), func(rt *rapid.T) {
		cycles := rapid.IntRange(1, 4).Draw(rt, "cycles")
		forget := rapid.Bool().Draw(rt, "forget_now")
		stamp := rapid.SampledFrom([]string{"Now().UnixNano()", "Now().UnixNano() + 0", "(Now().UnixNano())"}).Draw(rt, "stamp_expr")
		cond := rapid.SampledFrom([]string{"F.H < %d", "F.H < %d && Now().Unix() > 0", "Now().Year() > 2000 && F.H < %d"}).Draw(rt, "cond")
		var b strings.Builder
		fmt.Fprintf(&b, "rule Stamp \"reads the clock\" salience 5 { when "+cond+" then F.I64 = %s; F.H = F.H + 1;", cycles, stamp)
		if forget {
			b.WriteString(` Forget("Now()");`)
		}
		b.WriteString(" }\n")
		if rapid.Bool().Draw(rt, "with_other_rule") {
			b.WriteString("rule Other salience 1 { when F.I32 == 77 && F.B then F.I32 = 0; }\n")
		}
		cc := &c12ClockCase{Family: "clock", Text: b.String(), Calls: rapid.IntRange(2, 3).Draw(rt, "calls"), Cycles: cycles, Forget: forget,
			Variant: rapid.SampledFrom([]string{"stored", "loaded", "loaded", "loaded twice"}).Draw(rt, "variant")}
		v, err := c12ClockRun(cc)
		if err != nil {
			rt.Fatalf("harness: %v\n%s", err, cc.Text)
		}
		col.Case(fmt.Sprint(cc.Text, cc.Calls, cc.Variant), cc.Variant != "stored", "family:clock", "variant:"+cc.Variant, fmt.Sprintf("forget_now:%v", forget))
		if len(v) > 0 {
			msg := strings.Join(v, "\n") + "\n--- rules ---\n" + cc.Text
			path := col.Violation("C12", "C12/clock/"+cc.Variant, msg, cc)
			rt.Fatalf("C12 violated: %s (replay %s)", msg, path)
		}
	})
}
