package props

import (
	"fmt"
	"testing"

	"pgregory.net/rapid"

	"verif/internal/gast"
	"verif/internal/gen"
	"verif/internal/stats"
	"verif/internal/val"
)

// C04: rule actions write exactly the computed values to exactly the addressed facts.

// c04Features inspects the action lists of the fired rules.
func c04Features(c *val.Case, rep *val.Report, hot []gen.PathInfo) (nt bool, labels []string) {
	byText := map[string]gen.PathInfo{}
	for _, h := range hot {
		byText[h.Text] = h
	}
	fired := map[string]bool{}
	for _, n := range rep.Fired {
		fired[n] = true
	}
	seen := map[string]bool{}
	for _, r := range c.Rules {
		if !fired[r.Name] {
			continue
		}
		assigns := 0
		written := map[string]bool{}
		interesting := false
		for _, s := range r.Then {
			a, ok := s.(*gast.Assign)
			if !ok {
				continue
			}
			assigns++
			dst := gast.ExprString(a.LHS)
			if a.Op != "=" {
				interesting = true
				seen["compound:"+a.Op] = true
			}
			if pi, ok := byText[dst]; ok {
				seen["dst:"+pi.Form] = true
				if pi.Form != "field" {
					interesting = true
				}
				if pi.Kind.String() != "int64" && pi.Kind.String() != "float64" && (pi.T == gast.TInt || pi.T == gast.TFloat) {
					interesting = true
					seen["conversion"] = true
				}
			}
			gast.Walk(a.RHS, func(x gast.Expr) {
				if p, ok := x.(*gast.Path); ok && written[gast.ExprString(p)] {
					interesting = true
					seen["read_after_write"] = true
				}
			})
			written[dst] = true
		}
		if assigns >= 2 && interesting {
			nt = true
		}
	}
	for k := range seen {
		labels = append(labels, "fired:"+k)
	}
	return nt, labels
}

func TestC04(t *testing.T) {
	col := stats.New("C04", "single- and multi-rule sets whose action lists are sequences of 1-6 assignments over (addressing form x destination kind x source kind x operator x backend): struct fields of every numeric width, nested pointer / value struct / interface, slice elements, map entries (values of exactly the element type), pointer-to-number fields, JSON members/elements/selectors, top-level variables; =, +=, -=, *=, /=; int->float and float->int sources; later actions read what earlier ones wrote. After every firing the complete fact data (every field of both Go facts, the whole JSON document, every data-context entry) is compared with the reference interpreter's replay of the action list on a deep copy of the pre-state: typed locations by kind and value, JSON members and top-level variables by numeric value. The Go fact embeds two structs whose fields are partly shadowed by the fact's own fields and partly promoted (F.Base.I64 next to F.I64, F.Mid next to F.Base.Core.Mid, F.Deep). Non-trivial: a fired rule has >= 2 assignments and at least one of {numeric kind conversion, non-struct destination, compound operator, read-after-write}. Distinct by rule text + state.",
		"values that leave the destination's range, overflow or produce NaN/Inf are outside the property's quantifier: such runs are discarded from the comparison and counted",
		"a bare pointer-to-number read is only used inside arithmetic (the engine does not define it as an assignable number)")
	defer col.Flush()
	rc := gen.RuleSetCfg{
		State:    gen.StateCfg{D: gen.Small, Second: true, JSON: true, Top: true},
		MinRules: 1, MaxRules: 4, MinHot: 3, MaxHot: 7, MaxActions: 6, ExprDepth: 2, ConvWrites: true,
	}
	cfg := rsGenCfg{Rules: rc, Vary: true, Rejected: true, GRB: true, RemovedSibling: true, MaxCycle: func(rt *rapid.T) uint64 { return uint64(rapid.IntRange(1, 6).Draw(rt, "maxcycle")) }}
	check(t, 0, budget(6000, 80000), func(rt *rapid.T) {
		c, rs := genRSCase(rt, cfg)
		maybeUsedBefore(rt, c, rs, cfg.Rules.State)
		rep, v := runValidated(rt, c, "C04")
		nt, fl := c04Features(c, rep, rs.Hot)
		labels := append(featLabels(rs), fl...)
		labels = append(labels, "ended:"+rep.EndedBy, "firings:"+bucket(rep.Firings))
		if rep.Excluded != "" {
			labels = append(labels, "excluded_out_of_quantifier")
			nt = false
		}
		col.Case(c.Text+fmt.Sprint(c.Init.Go["F"].I64, c.MaxCycle), nt, labels...)
		if col.WantSample(nt) {
			col.Sample(sampleOf(c, rep), nt)
		}
		if len(v) > 0 {
			reportViolation(rt, col, "C04", c, rep, v)
		}
	})
}

func init() { registerRSReplayer("C04") }
