package props

import (
	"bufio"
	"bytes"
	"encoding/json"
	"errors"
	"fmt"
	"io"
	"sort"
	"strings"
	"testing"
	"testing/iotest"

	"github.com/hyperjumptech/grule-rule-engine/ast"
	"pgregory.net/rapid"

	"verif/internal/facts"
	"verif/internal/gast"
	"verif/internal/obs"
	"verif/internal/stats"
	"verif/internal/val"
)

// C12: binary store/load yields an equivalent knowledge base or an error.

type c12Case struct {
	Run    *rsCase        `json:"run"`
	States []*facts.State `json:"fact_states"`
	Offset int            `json:"truncation_offset,omitempty"`
	FailAt int            `json:"failing_write_index,omitempty"`
	What   string         `json:"what"`
}

func storeKB(lib *ast.KnowledgeLibrary, w io.Writer) (err error) {
	defer func() {
		if r := recover(); r != nil {
			err = fmt.Errorf("store panicked: %v", r)
		}
	}()
	return lib.StoreKnowledgeBaseToWriter(w, obs.KBName, obs.KBVersion)
}

func loadKB(b []byte, lib *ast.KnowledgeLibrary, overwrite bool) (kb *ast.KnowledgeBase, err error, pan interface{}) {
	defer func() {
		if r := recover(); r != nil {
			pan = r
			err = fmt.Errorf("load panicked: %v", r)
		}
	}()
	kb, err = lib.LoadKnowledgeBaseFromReader(bytes.NewReader(b), overwrite)
	return kb, err, nil
}

// boundaryReader records the stream offset of every Read call (field boundaries).
type boundaryReader struct {
	r       *bytes.Reader
	off     int
	offsets map[int]bool
}

func (b *boundaryReader) Read(p []byte) (int, error) {
	b.offsets[b.off] = true
	n, err := b.r.Read(p)
	b.off += n
	return n, err
}

type failingWriter struct {
	buf    bytes.Buffer
	calls  int
	failAt int // 0-based call index that fails; -1 never
	short  bool
}

var errInjectedWrite = errors.New("injected write failure")

func (w *failingWriter) Write(p []byte) (int, error) {
	i := w.calls
	w.calls++
	if w.failAt >= 0 && i == w.failAt {
		if len(p) > 1 {
			n := len(p) / 2
			w.buf.Write(p[:n])
			return n, errInjectedWrite
		}
		return 0, errInjectedWrite
	}
	if w.short && len(p) > 1 {
		// a legal short write: fewer bytes, no error on the bytes written... the io.Writer contract
		// demands an error with n < len(p), so report one that the caller may retry after
		n := (len(p) + 1) / 2
		w.buf.Write(p[:n])
		return n, nil
	}
	w.buf.Write(p)
	return len(p), nil
}

type kbMeta struct {
	Name, Version string
	Rules         map[string][2]string // name -> {description, salience}
}

func metaOf(kb *ast.KnowledgeBase) kbMeta {
	m := kbMeta{Name: kb.Name, Version: kb.Version, Rules: map[string][2]string{}}
	for k, r := range kb.RuleEntries {
		m.Rules[k] = [2]string{r.RuleDescription, fmt.Sprint(r.Salience)}
		if k != r.RuleName {
			m.Rules[k] = [2]string{"key/name mismatch: " + r.RuleName, fmt.Sprint(r.Salience)}
		}
	}
	return m
}

func metaDiff(a, b kbMeta) []string {
	var out []string
	if a.Name != b.Name || a.Version != b.Version {
		out = append(out, fmt.Sprintf("name/version %s:%s vs %s:%s", a.Name, a.Version, b.Name, b.Version))
	}
	keys := map[string]bool{}
	for k := range a.Rules {
		keys[k] = true
	}
	for k := range b.Rules {
		keys[k] = true
	}
	var ks []string
	for k := range keys {
		ks = append(ks, k)
	}
	sort.Strings(ks)
	for _, k := range ks {
		x, okx := a.Rules[k]
		y, oky := b.Rules[k]
		if okx != oky {
			out = append(out, fmt.Sprintf("rule %s present %v vs %v", k, okx, oky))
			continue
		}
		if x != y {
			out = append(out, fmt.Sprintf("rule %s: description/salience %q vs %q", k, x, y))
		}
	}
	return out
}

// behaves compares the behaviour of a loaded library with the original on the fact states.
func c12Behaves(c *val.Case, prep *val.Prepared, loaded *ast.KnowledgeLibrary, states []*facts.State, label string) []string {
	var v []string
	for si, st := range states {
		cc := *c
		cc.Init = st
		orig := val.Run(&cc, prep)
		if orig.Excluded != "" {
			continue
		}
		p2 := *prep
		p2.Lib = loaded
		got := val.Run(&cc, &p2)
		for _, m := range clauseViolations(got) {
			v = append(v, fmt.Sprintf("%s, fact state %d: %s", label, si, m))
		}
		for _, m := range got.Of("C09") {
			v = append(v, fmt.Sprintf("%s, fact state %d: %s", label, si, m))
		}
		if got.Excluded != "" || got.Harness != "" {
			continue
		}
		if allDistinctSalience(c.Rules) {
			if strings.Join(orig.Fired, ",") != strings.Join(got.Fired, ",") || orig.EndedBy != got.EndedBy {
				v = append(v, fmt.Sprintf("%s, fact state %d: fires %v (%s), the stored knowledge base fires %v (%s)", label, si, got.Fired, got.EndedBy, orig.Fired, orig.EndedBy))
			} else if d := facts.Diff(orig.Final, got.Final); len(d) > 0 {
				if len(d) > 4 {
					d = d[:4]
				}
				v = append(v, fmt.Sprintf("%s, fact state %d: final facts differ: %s", label, si, strings.Join(d, "; ")))
			}
		}
	}
	return v
}

type c12Stats struct {
	StreamLen   int
	Boundaries  int
	Truncations int
	TruncLoaded int
	WriteCalls  int
	Exhaustive  bool
}

// c12Run performs all sub-checks; only = "" runs everything, otherwise a single fault point.
func c12Run(cc *c12Case, sampleOffsets func(n int, boundaries []int) []int) ([]string, *c12Stats, *c12Case, error) {
	c, err := fromRSCase(cc.Run)
	if err != nil {
		return nil, nil, nil, err
	}
	prep, err := val.Prepare(c)
	if err != nil {
		return nil, nil, nil, err
	}
	st := &c12Stats{}
	var v []string
	fail := func(what string, off, failAt int, msgs ...string) *c12Case {
		v = append(v, msgs...)
		return &c12Case{Run: cc.Run, States: cc.States, Offset: off, FailAt: failAt, What: what}
	}
	var failing *c12Case
	// --- store
	var buf bytes.Buffer
	if err := storeKB(prep.Lib, &buf); err != nil {
		return []string{fmt.Sprintf("StoreKnowledgeBaseToWriter failed on a healthy writer: %v", err)}, st, fail("store", 0, 0), nil
	}
	B := buf.Bytes()
	st.StreamLen = len(B)
	origMeta := metaOf(prep.Lib.GetKnowledgeBase(obs.KBName, obs.KBVersion))
	// --- (a) round trip, twice
	lib2 := ast.NewKnowledgeLibrary()
	br := &boundaryReader{r: bytes.NewReader(B), offsets: map[int]bool{}}
	kb2, lerr := func() (kb *ast.KnowledgeBase, err error) {
		defer func() {
			if r := recover(); r != nil {
				err = fmt.Errorf("panic: %v", r)
			}
		}()
		return lib2.LoadKnowledgeBaseFromReader(br, true)
	}()
	if lerr != nil {
		return []string{fmt.Sprintf("loading the complete stream failed: %v", lerr)}, st, fail("load", 0, 0), nil
	}
	if d := metaDiff(origMeta, metaOf(kb2)); len(d) > 0 {
		failing = fail("roundtrip-meta", 0, 0, "loaded knowledge base differs in metadata: "+strings.Join(d, "; "))
	}
	if cc.What == "" || cc.What == "roundtrip" {
		if m := c12Behaves(c, prep, lib2, cc.States, "loaded knowledge base"); len(m) > 0 {
			failing = fail("roundtrip", 0, 0, m...)
		}
		var buf2 bytes.Buffer
		if err := storeKB(lib2, &buf2); err != nil {
			failing = fail("roundtrip", 0, 0, fmt.Sprintf("storing the loaded knowledge base failed: %v", err))
		} else {
			lib3 := ast.NewKnowledgeLibrary()
			kb3, err3, _ := loadKB(buf2.Bytes(), lib3, true)
			if err3 != nil {
				failing = fail("roundtrip", 0, 0, fmt.Sprintf("loading the twice-stored stream failed: %v", err3))
			} else {
				if d := metaDiff(origMeta, metaOf(kb3)); len(d) > 0 {
					failing = fail("roundtrip-meta", 0, 0, "twice stored-and-loaded knowledge base differs in metadata: "+strings.Join(d, "; "))
				}
				if m := c12Behaves(c, prep, lib3, cc.States[:1], "twice stored-and-loaded knowledge base"); len(m) > 0 {
					failing = fail("roundtrip", 0, 0, m...)
				}
			}
		}
	}
	// --- (a') the same stream through readers that deliver it in pieces (sockets, pipes, buffered and
	// decompressing readers do): one byte at a time, half of what is asked, through a small bufio buffer, and
	// with the last bytes arriving together with io.EOF
	if cc.What == "" || cc.What == "pieces" {
		readers := []struct {
			name string
			mk   func() io.Reader
		}{
			{"one byte per Read", func() io.Reader { return iotest.OneByteReader(bytes.NewReader(B)) }},
			{"half of the requested bytes per Read", func() io.Reader { return iotest.HalfReader(bytes.NewReader(B)) }},
			{"a 16-byte bufio.Reader", func() io.Reader { return bufio.NewReaderSize(bytes.NewReader(B), 16) }},
			{"a reader returning the last bytes together with io.EOF", func() io.Reader { return iotest.DataErrReader(bytes.NewReader(B)) }},
		}
		for ri, rd := range readers {
			lp := ast.NewKnowledgeLibrary()
			kbp, perr := func() (kb *ast.KnowledgeBase, err error) {
				defer func() {
					if r := recover(); r != nil {
						err = fmt.Errorf("panic: %v", r)
					}
				}()
				return lp.LoadKnowledgeBaseFromReader(rd.mk(), true)
			}()
			if perr != nil {
				failing = fail("pieces", 0, 0, fmt.Sprintf("the complete stream does not load through %s: %v", rd.name, perr))
				break
			}
			if d := metaDiff(origMeta, metaOf(kbp)); len(d) > 0 {
				failing = fail("pieces", 0, 0, fmt.Sprintf("loaded through %s the knowledge base differs in metadata: %s", rd.name, strings.Join(d, "; ")))
				break
			}
			if ri == 1 {
				if m := c12Behaves(c, prep, lp, cc.States[:1], "knowledge base loaded through "+rd.name); len(m) > 0 {
					failing = fail("pieces", 0, 0, m...)
					break
				}
			}
		}
	}
	// --- (d) overwrite=false on an existing entry
	if cc.What == "" || cc.What == "overwrite" {
		before := lib2.GetKnowledgeBase(obs.KBName, obs.KBVersion)
		_, oerr, _ := loadKB(B, lib2, false)
		if oerr == nil {
			failing = fail("overwrite", 0, 0, "LoadKnowledgeBaseFromReader with overwrite=false replaced or accepted an existing entry without error")
		}
		if lib2.GetKnowledgeBase(obs.KBName, obs.KBVersion) != before {
			failing = fail("overwrite", 0, 0, "overwrite=false: the library entry was replaced")
		}
		if m := c12Behaves(c, prep, lib2, cc.States[:1], "existing entry after a refused overwrite=false load"); len(m) > 0 {
			failing = fail("overwrite", 0, 0, m...)
		}
	}
	// --- (g) overwrite=true onto an existing entry of the same name and version that holds other rules as well:
	// the registered knowledge base is the stored one afterwards, nothing of the earlier entry is left
	if cc.What == "" || cc.What == "overwrite-true" {
		lo, berr := obs.Build(c12Leftover + c.Text)
		if berr != nil {
			lo, berr = obs.Build(c12Leftover)
		}
		if berr != nil {
			return nil, nil, nil, fmt.Errorf("the earlier entry does not build: %v", berr)
		}
		kbo, oerr, opan := loadKB(B, lo, true)
		switch {
		case opan != nil:
			failing = fail("overwrite-true", 0, 0, fmt.Sprintf("loading with overwrite=true onto an existing entry panicked: %v", opan))
		case oerr != nil:
			failing = fail("overwrite-true", 0, 0, fmt.Sprintf("loading the complete stream with overwrite=true onto an existing entry failed: %v", oerr))
		default:
			var m []string
			if d := metaDiff(origMeta, metaOf(kbo)); len(d) > 0 {
				m = append(m, "knowledge base returned by a load with overwrite=true onto an existing entry differs in metadata: "+strings.Join(d, "; "))
			}
			if d := metaDiff(origMeta, metaOf(lo.GetKnowledgeBase(obs.KBName, obs.KBVersion))); len(d) > 0 {
				m = append(m, "library entry after a load with overwrite=true onto an existing entry differs in metadata: "+strings.Join(d, "; "))
			}
			m = append(m, c12Behaves(c, prep, lo, cc.States[:1], "knowledge base loaded with overwrite=true onto an existing entry")...)
			if len(m) > 0 {
				failing = fail("overwrite-true", 0, 0, m...)
			}
		}
	}
	// --- (b) truncation
	var boundaries []int
	for o := range br.offsets {
		if o < len(B) {
			boundaries = append(boundaries, o)
		}
	}
	sort.Ints(boundaries)
	st.Boundaries = len(boundaries)
	var offsets []int
	switch {
	case cc.What == "truncate":
		offsets = []int{cc.Offset}
	case cc.What == "":
		offsets = sampleOffsets(len(B), boundaries)
		st.Exhaustive = len(offsets) == len(B)
	}
	for _, off := range offsets {
		st.Truncations++
		l := ast.NewKnowledgeLibrary()
		_, terr, pan := loadKB(B[:off], l, true)
		if pan != nil {
			failing = fail("truncate", off, 0, fmt.Sprintf("loading the stream cut at byte %d of %d panicked out of the loader: %v", off, len(B), pan))
			break
		}
		if terr == nil {
			st.TruncLoaded++
			// a prefix that loads must behave like the stored knowledge base
			m := c12Behaves(c, prep, l, cc.States[:1], fmt.Sprintf("knowledge base loaded from the stream cut at byte %d of %d", off, len(B)))
			if d := metaDiff(origMeta, metaOf(l.GetKnowledgeBase(obs.KBName, obs.KBVersion))); len(d) > 0 {
				m = append(m, fmt.Sprintf("stream cut at byte %d of %d loads without error but differs in metadata: %s", off, len(B), strings.Join(d, "; ")))
			}
			if len(m) > 0 {
				failing = fail("truncate", off, 0, m...)
				break
			}
		}
	}
	// --- (c) failing writer
	fw := &failingWriter{failAt: -1}
	_ = storeKB(prep.Lib, fw)
	st.WriteCalls = fw.calls
	var idx []int
	switch {
	case cc.What == "failwrite":
		idx = []int{cc.FailAt}
	case cc.What == "":
		for i := 0; i < fw.calls; i++ {
			idx = append(idx, i)
		}
	}
	for _, i := range idx {
		w := &failingWriter{failAt: i}
		if err := storeKB(prep.Lib, w); err == nil {
			failing = fail("failwrite", 0, i, fmt.Sprintf("the writer failed at write call %d of %d but StoreKnowledgeBaseToWriter returned nil", i, fw.calls))
			break
		}
	}
	// --- (f) the knowledge base is stored a second time after a rule was removed through the library: the
	// second stream holds the remaining rules only (this changes the library, so it comes last)
	if (cc.What == "" || cc.What == "store-after-removal") && len(c.Rules) >= 2 {
		gone := c.Rules[len(c.Rules)-1].Name
		prep.Lib.RemoveRuleEntry(gone, obs.KBName, obs.KBVersion)
		var b2 bytes.Buffer
		if err := storeKB(prep.Lib, &b2); err != nil {
			failing = fail("store-after-removal", 0, 0, fmt.Sprintf("storing after the removal of %s failed: %v", gone, err))
		} else {
			l4 := ast.NewKnowledgeLibrary()
			kb4, err4, _ := loadKB(b2.Bytes(), l4, true)
			if err4 != nil {
				failing = fail("store-after-removal", 0, 0, fmt.Sprintf("the stream stored after the removal of %s does not load: %v", gone, err4))
			} else {
				want := kbMeta{Name: origMeta.Name, Version: origMeta.Version, Rules: map[string][2]string{}}
				for k, m := range origMeta.Rules {
					if k != gone {
						want.Rules[k] = m
					}
				}
				if d := metaDiff(want, metaOf(kb4)); len(d) > 0 {
					failing = fail("store-after-removal", 0, 0, fmt.Sprintf("stored, then rule %s removed through the library, then stored again: the second stream does not hold exactly the remaining rules: %s", gone, strings.Join(d, "; ")))
				}
			}
		}
	}
	return v, st, failing, nil
}

// c12Leftover is a rule of the entry that a load with overwrite=true replaces.
const c12Leftover = "rule LeftoverRule \"of the replaced entry\" salience 2000000 { when true then F.Log = F.Log + \"leftover\"; Retract(\"LeftoverRule\"); }\n"

func TestC12(t *testing.T) {
	col := stats.New("C12", "generated rule sets (pairwise distinct saliences, write->read dependencies, descriptions, int32-limit saliences) with 2-3 fact states. (a) store -> load -> store -> load (also with the stream delivered in pieces: one byte per Read, half reads, a 16-byte bufio buffer, data together with io.EOF): name, version, rule names, descriptions, saliences equal; instances of the loaded and twice-loaded knowledge base validate against fresh single-rule truth and the reference replay, and fire the same sequence with the same final facts as the original; (b) truncation: the stream is cut at every field boundary (recorded from the loader's own Read calls on the complete stream) plus a drawn sample of other offsets - every offset in the thorough tier - and each prefix must make Load return an error or yield a knowledge base that passes the same comparison; (c) the store writer fails at every write-call index (all indices); (f) a second store after a rule was removed through the library holds exactly the remaining rules; (d) overwrite=false on an existing entry: error, entry pointer-identical and behaviourally unchanged; (g) overwrite=true onto an existing entry that holds the same rules and one more: the returned and the registered knowledge base have exactly the stored rules and behave like the stored one; (e) clock family: small rule sets that stamp a fact with Now() are executed 2-3 times on one instance of the stored / loaded / twice-loaded knowledge base, with and without Forget(\"Now()\"): every call's stamp must not lie before that call started. Non-trivial: the rule set's run on the first fact state needs an invalidation (>= 2 cycles and a truth flip). Distinct by rule text + facts.",
		"crash points are enumerated per generated rule set; the rule sets themselves are sampled")
	defer col.Flush()
	rc := fullRuleCfg()
	rc.DistinctSalience = true
	rc.MinRules, rc.MaxRules, rc.ExprDepth, rc.MaxActions = 1, 3, 2, 2
	cfg := rsGenCfg{Rules: rc, Vary: true}
	check(t, 0, budget(160, 480), func(rt *rapid.T) {
		c, rs := genRSCase(rt, cfg)
		cc := &c12Case{Run: toRSCase(c)}
		cc.States = append(cc.States, c.Init)
		for i := 0; i < rapid.IntRange(1, 2).Draw(rt, "extra_states"); i++ {
			cc.States = append(cc.States, c08GenState(rt, rs, rc.State))
		}
		sampler := func(n int, boundaries []int) []int {
			if stats.Thorough() {
				all := make([]int, n)
				for i := range all {
					all[i] = i
				}
				return all
			}
			offs := append([]int{}, boundaries...)
			extra := 150
			for i := 0; i < extra; i++ {
				offs = append(offs, rapid.IntRange(0, n-1).Draw(rt, "cut"))
			}
			return offs
		}
		v, st, failing, err := c12Run(cc, sampler)
		if err != nil {
			rt.Fatalf("harness: %v\n%s", err, c.Text)
		}
		// non-triviality from the original's run
		prep, _ := val.Prepare(c)
		rep := val.Run(c, prep)
		nt := rep.Cycles >= 2 && (rep.FlipsTF+rep.FlipsFT) > 0
		labels := append(featLabels(rs), "stream:"+bucket(st.StreamLen/1024)+"KiB")
		if st.TruncLoaded > 0 {
			labels = append(labels, "a_truncated_prefix_loaded_and_behaved")
		}
		col.Case(fmt.Sprint(c.Text, c.Init.Go["F"].I64), nt, labels...)
		col.AddExtra("truncation_offsets_tried", st.Truncations)
		col.AddExtra("field_boundaries_tried", st.Boundaries)
		col.AddExtra("failing_write_indices_tried", st.WriteCalls)
		if col.WantSample(nt) {
			col.Sample(map[string]interface{}{"rules": gast.RulesString(c.Rules), "stream_bytes": st.StreamLen, "field_boundaries": st.Boundaries, "truncations_tried": st.Truncations, "write_calls": st.WriteCalls}, nt)
		}
		if len(v) > 0 {
			if len(v) > 6 {
				v = v[:6]
			}
			msg := strings.Join(v, "\n") + "\n--- rules ---\n" + gast.RulesString(c.Rules)
			path := col.Violation("C12", "C12/"+failing.What, msg, failing)
			rt.Fatalf("C12 violated: %s (replay %s)", msg, path)
		}
	})
	c12ClockFamily(t, col)
	col.Extra("truncation_exhaustive_per_case", stats.Thorough())
	col.Extra("failing_write_enumeration_exhaustive_per_case", true)
}

func init() {
	replayers["C12"] = func(raw json.RawMessage) error {
		var fam struct {
			Family string `json:"family"`
		}
		if json.Unmarshal(raw, &fam) == nil && fam.Family == "clock" {
			var ck c12ClockCase
			if err := json.Unmarshal(raw, &ck); err != nil {
				return err
			}
			v, err := c12ClockRun(&ck)
			if err != nil {
				return err
			}
			if len(v) > 0 {
				return fmt.Errorf("%s", strings.Join(v, "; "))
			}
			return nil
		}
		var cc c12Case
		if err := json.Unmarshal(raw, &cc); err != nil {
			return err
		}
		what := cc.What
		if what == "roundtrip-meta" || what == "store" || what == "load" || what == "shortwrite" {
			cc.What = ""
		}
		for i := 0; i < 8; i++ {
			v, _, _, err := c12Run(&cc, func(n int, b []int) []int { return b })
			if err != nil {
				return err
			}
			if len(v) > 0 {
				return fmt.Errorf("%s", strings.Join(v, "; "))
			}
		}
		return nil
	}
}
