package props

import (
	"bytes"
	"encoding/json"
	"flag"
	"fmt"
	"github.com/hyperjumptech/grule-rule-engine/builder"
	"github.com/hyperjumptech/grule-rule-engine/pkg"
	"sort"
	"strings"
	"testing"

	"github.com/hyperjumptech/grule-rule-engine/ast"
	"pgregory.net/rapid"

	"verif/internal/facts"
	"verif/internal/gast"
	"verif/internal/gen"
	"verif/internal/obs"
	"verif/internal/stats"
)

// C16: rule names stay unique and removed rules never fire again.

type c16KBKey struct{ Name, Version string }

func (k c16KBKey) String() string { return k.Name + "/" + k.Version }

var c16KBs = []c16KBKey{{"kbA", "1"}, {"kbA", "2"}, {"kbB", "1"}}

// c16Op is one step of a history (serialisable).
type c16Op struct {
	Op        string        `json:"op"`
	KB        int           `json:"kb"`
	Rules     []interface{} `json:"rules,omitempty"` // for build
	JSON      bool          `json:"through_the_json_front_end,omitempty"`
	Name      string        `json:"name,omitempty"` // for remove*
	Overwrite bool          `json:"overwrite,omitempty"`
}

type c16Case struct {
	Ops    []c16Op        `json:"history"`
	States []*facts.State `json:"fact_states"`
}

type c16Model struct {
	active  map[int]map[string]*gast.Rule // kb index -> name -> rule in force
	removed map[int]map[string]bool
	exists  map[int]bool // the knowledge base has an entry in the library
}

func newC16Model() *c16Model {
	m := &c16Model{active: map[int]map[string]*gast.Rule{}, removed: map[int]map[string]bool{}, exists: map[int]bool{}}
	for i := range c16KBs {
		m.active[i] = map[string]*gast.Rule{}
		m.removed[i] = map[string]bool{}
	}
	return m
}

func c16MkRule(name string, cond, val gast.Expr) *gast.Rule {
	return &gast.Rule{Name: name, When: cond, Then: []gast.Stmt{
		&gast.Assign{LHS: gast.P("J", "out_"+name), Op: "=", RHS: val},
		&gast.CallStmt{X: &gast.Call{Name: "Retract", Args: []gast.Expr{gast.S(name)}}},
	}}
}

type c16World struct {
	lib   *ast.KnowledgeLibrary
	model *c16Model
	// soloCache: rule text -> outcome per state index
	soloCache map[string][]c07Outcome
	states    []*facts.State
}

func (w *c16World) soloOutcome(r *gast.Rule) ([]c07Outcome, error) {
	text := gast.RuleString(r)
	if o, ok := w.soloCache[text]; ok {
		return o, nil
	}
	var out []c07Outcome
	for _, st := range w.states {
		o, err := c07Observe(text, []string{r.Name}, st)
		if err != nil {
			return nil, err
		}
		out = append(out, o[r.Name])
	}
	w.soloCache[text] = out
	return out, nil
}

// apply performs an operation on the real library and on the model; returns violations.
func (w *c16World) apply(op c16Op) []string {
	var v []string
	kb := c16KBs[op.KB]
	m := w.model
	switch op.Op {
	case "build":
		rules, err := gast.DecodeRules(op.Rules)
		if err != nil {
			return []string{"harness: " + err.Error()}
		}
		text := gast.RulesString(rules)
		// expectation
		dup := false
		seen := map[string]bool{}
		for _, r := range rules {
			if seen[r.Name] || m.active[op.KB][r.Name] != nil {
				dup = true
			}
			seen[r.Name] = true
		}
		var berr error
		var pan interface{}
		if op.JSON {
			// the same rules as a JSON rule set (raw GRL in its when/then members)
			berr, pan = c16BuildJSON(w.lib, kb.Name, kb.Version, rules)
		} else {
			berr, pan = obs.BuildInto(w.lib, kb.Name, kb.Version, text)
		}
		if pan != nil {
			return []string{fmt.Sprintf("BuildRuleFromResource panicked: %v", pan)}
		}
		m.exists[op.KB] = true
		real := w.lib.GetKnowledgeBase(kb.Name, kb.Version)
		if dup {
			if berr == nil {
				v = append(v, fmt.Sprintf("building a resource with a rule name that already exists in %s returned no error:\n%s", kb, text))
			}
			// the existing rules stay in force; non-duplicate rules of the rejected resource may or may not
			// have been added - follow the engine for those
			first := map[string]*gast.Rule{}
			for _, r := range rules {
				if _, ok := first[r.Name]; !ok {
					first[r.Name] = r
				}
			}
			for name, r := range first {
				if m.active[op.KB][name] != nil {
					continue
				}
				if e, ok := real.RuleEntries[name]; ok && !e.Deleted {
					m.active[op.KB][name] = r
					delete(m.removed[op.KB], name)
				}
			}
		} else {
			if berr != nil {
				v = append(v, fmt.Sprintf("building valid rules with fresh names into %s failed: %v%s\n%s", kb, berr, reporterDetails(berr), text))
				// follow the engine
				for _, r := range rules {
					if e, ok := real.RuleEntries[r.Name]; ok && !e.Deleted {
						m.active[op.KB][r.Name] = r
					}
				}
			} else {
				for _, r := range rules {
					m.active[op.KB][r.Name] = r
					delete(m.removed[op.KB], r.Name)
				}
			}
		}
	case "removeFromLibrary":
		w.lib.RemoveRuleEntry(op.Name, kb.Name, kb.Version)
		if m.active[op.KB][op.Name] != nil {
			delete(m.active[op.KB], op.Name)
			m.removed[op.KB][op.Name] = true
		}
	case "removeFromBlueprint":
		if !m.exists[op.KB] {
			return nil
		}
		w.lib.GetKnowledgeBase(kb.Name, kb.Version).RemoveRuleEntry(op.Name)
		if m.active[op.KB][op.Name] != nil {
			delete(m.active[op.KB], op.Name)
			m.removed[op.KB][op.Name] = true
		}
	case "storeLoad":
		if !m.exists[op.KB] {
			return nil
		}
		var buf bytes.Buffer
		if err := storeKB2(w.lib, kb, &buf); err != nil {
			return []string{fmt.Sprintf("storing %s failed: %v", kb, err)}
		}
		before := w.lib.GetKnowledgeBase(kb.Name, kb.Version)
		_, lerr, pan := loadKB(buf.Bytes(), w.lib, op.Overwrite)
		if pan != nil {
			return []string{fmt.Sprintf("load panicked: %v", pan)}
		}
		if op.Overwrite {
			if lerr != nil {
				v = append(v, fmt.Sprintf("loading the stored %s with overwrite=true failed: %v", kb, lerr))
			}
		} else {
			if lerr == nil {
				v = append(v, fmt.Sprintf("loading %s with overwrite=false over an existing entry returned no error", kb))
			}
			if w.lib.GetKnowledgeBase(kb.Name, kb.Version) != before {
				v = append(v, fmt.Sprintf("overwrite=false replaced the entry of %s", kb))
			}
		}
	case "removeFromInstance", "removeDuringExecute":
		// handled inside the invariant (instance-local)
	}
	return v
}

func c16BuildJSON(lib *ast.KnowledgeLibrary, name, version string, rules []*gast.Rule) (err error, pan interface{}) {
	defer func() {
		if r := recover(); r != nil {
			pan = r
			err = fmt.Errorf("panic: %v", r)
		}
	}()
	var set []interface{}
	for _, r := range rules {
		m := map[string]interface{}{"name": r.Name, "when": gast.ExprString(r.When)}
		var then []interface{}
		for _, st := range r.Then {
			then = append(then, gast.StmtString(st))
		}
		m["then"] = then
		if r.Desc != nil {
			m["desc"] = *r.Desc
		}
		if r.Salience != nil {
			m["salience"] = *r.Salience
		}
		set = append(set, m)
	}
	jb, jerr := json.Marshal(set)
	if jerr != nil {
		return jerr, nil
	}
	res, rerr := pkg.NewJSONResourceFromResource(pkg.NewBytesResource(jb))
	if rerr != nil {
		return rerr, nil
	}
	return builder.NewRuleBuilder(lib).BuildRuleFromResource(name, version, res), nil
}

func storeKB2(lib *ast.KnowledgeLibrary, kb c16KBKey, w *bytes.Buffer) (err error) {
	defer func() {
		if r := recover(); r != nil {
			err = fmt.Errorf("store panicked: %v", r)
		}
	}()
	return lib.StoreKnowledgeBaseToWriter(w, kb.Name, kb.Version)
}

// invariant checks every knowledge base against the model.
// midRemove (kb index -> rule name), when set for a step, makes the invariant also run one Execute during
// which a listener callback removes that rule from the executing instance at the start of the second cycle.
var c16MidRemove map[int]string

func (w *c16World) invariant(instRemove map[int]string) []string {
	var v []string
	for i, kb := range c16KBs {
		if !w.model.exists[i] {
			continue
		}
		inst, err := obs.InstanceOf(w.lib, kb.Name, kb.Version)
		if err != nil {
			v = append(v, fmt.Sprintf("%s: NewKnowledgeBaseInstance failed: %v", kb, err))
			continue
		}
		active := map[string]*gast.Rule{}
		for n, r := range w.model.active[i] {
			active[n] = r
		}
		if n, ok := instRemove[i]; ok {
			inst.RemoveRuleEntry(n)
			delete(active, n)
		}
		// structural: exactly one non-deleted entry per active name
		live := map[string]int{}
		for key, e := range inst.RuleEntries {
			if e.Deleted {
				continue
			}
			live[e.RuleName]++
			if key != e.RuleName {
				v = append(v, fmt.Sprintf("%s: entry key %q holds rule named %q", kb, key, e.RuleName))
			}
		}
		for n, k := range live {
			if k > 1 {
				v = append(v, fmt.Sprintf("%s: %d active rules named %s", kb, k, n))
			}
			if active[n] == nil {
				v = append(v, fmt.Sprintf("%s: rule %s is active in the instance but was removed (or never built) according to the history", kb, n))
			}
		}
		for n := range active {
			if live[n] == 0 {
				v = append(v, fmt.Sprintf("%s: rule %s is in force according to the history but missing from the instance", kb, n))
			}
		}
		names := make([]string, 0, len(active))
		for n := range active {
			names = append(names, n)
		}
		sort.Strings(names)
		for si, st := range w.states {
			// FetchMatchingRules
			s1 := st.Copy()
			dc, _ := obs.NewDataContext(s1)
			got, _, ferr, pan := obs.Fetch(inst, dc, false)
			if pan != nil || ferr != nil {
				v = append(v, fmt.Sprintf("%s: FetchMatchingRules failed: %v %v", kb, ferr, pan))
				continue
			}
			gotSet := map[string]bool{}
			for _, n := range got {
				gotSet[n] = true
				if active[n] == nil {
					v = append(v, fmt.Sprintf("%s, facts %d: FetchMatchingRules returned %q, which is not an active rule of the history (removed rules: %v)", kb, si, n, keysOf(w.model.removed[i])))
				}
			}
			// Execute on a second instance (so the Fetch above cannot interfere)
			inst2, err := obs.InstanceOf(w.lib, kb.Name, kb.Version)
			if err != nil {
				v = append(v, fmt.Sprintf("%s: NewKnowledgeBaseInstance failed: %v", kb, err))
				continue
			}
			if n, ok := instRemove[i]; ok {
				inst2.RemoveRuleEntry(n)
			}
			s2 := st.Copy()
			dc2, _ := obs.NewDataContext(s2)
			rec := &obs.Recorder{}
			res := obs.Execute(inst2, dc2, obs.RunOpts{MaxCycle: uint64(len(inst2.RuleEntries) + 3), Listeners: listenersOf(rec)})
			if res.Panicked != nil {
				v = append(v, fmt.Sprintf("%s: Execute panicked: %v", kb, res.Panicked))
				continue
			}
			for _, ev := range rec.Events {
				if ev.Kind == obs.EvProbe || ev.Kind == obs.EvBegin {
					continue
				}
				if active[ev.Rule] == nil {
					v = append(v, fmt.Sprintf("%s, facts %d: event %s names a rule that is not active according to the history", kb, si, ev))
					break
				}
			}
			if mid, ok := c16MidRemove[i]; ok && si == 0 {
				if inst3, ierr := obs.InstanceOf(w.lib, kb.Name, kb.Version); ierr == nil {
					s3 := st.Copy()
					dc3, _ := obs.NewDataContext(s3)
					rec3 := &obs.Recorder{}
					removedAt := -1
					rec3.Hook = func(ev *obs.Event) {
						if ev.Kind == obs.EvBegin && ev.Cycle == 2 && removedAt < 0 {
							inst3.RemoveRuleEntry(mid)
							removedAt = len(rec3.Events)
						}
					}
					res3 := obs.Execute(inst3, dc3, obs.RunOpts{MaxCycle: uint64(len(inst3.RuleEntries) + 3), Listeners: listenersOf(rec3)})
					if res3.Panicked != nil {
						v = append(v, fmt.Sprintf("%s: Execute panicked when rule %s was removed from the executing instance by a listener: %v", kb, mid, res3.Panicked))
					} else if removedAt >= 0 {
						for _, ev := range rec3.Events[removedAt:] {
							if (ev.Kind == obs.EvExec || ev.Kind == obs.EvEval) && (ev.Rule == mid || strings.HasPrefix(ev.Rule, "Deleted_")) {
								v = append(v, fmt.Sprintf("%s: rule %s was removed from the executing instance (listener callback at the start of cycle 2), yet %s followed", kb, mid, ev))
								break
							}
						}
					}
				}
			}
			final := obs.Capture(s2, dc2)
			j, _ := final.JSON["J"].(map[string]interface{})
			for _, n := range names {
				want, serr := w.soloOutcome(active[n])
				if serr != nil {
					continue // the rule alone fails: outside this property's domain
				}
				if gotSet[n] != want[si].Match {
					v = append(v, fmt.Sprintf("%s, facts %d: rule %s matches=%v, its own text (built alone) gives %v: %s", kb, si, n, gotSet[n], want[si].Match, gast.RuleString(active[n])))
				}
				sink, has := j["out_"+n]
				o := c07Outcome{Match: want[si].Match, Sink: sink, Has: has}
				if !sinkEqual(want[si], o) {
					v = append(v, fmt.Sprintf("%s, facts %d: rule %s wrote %v (present %v), its own text (built alone) writes %v (present %v): %s", kb, si, n, sink, has, want[si].Sink, want[si].Has, gast.RuleString(active[n])))
				}
			}
			// sinks of rules that are not active must not appear
			for key := range j {
				if strings.HasPrefix(key, "out_") && active[strings.TrimPrefix(key, "out_")] == nil {
					v = append(v, fmt.Sprintf("%s, facts %d: a removed or foreign rule wrote %s", kb, si, key))
				}
			}
		}
	}
	return v
}

func TestC16(t *testing.T) {
	col := stats.New("C16", "stateful (model-based) generation over one library holding up to three knowledge bases (kbA/1, kbA/2, kbB/1): histories of up to 10 operations - build a resource of 1-3 generated rules, as GRL or (a quarter) as a JSON rule set (fresh names, names of removed rules = re-build with new text, duplicate names inside the resource or against active rules, half of the latter with the identical text of the rule in force), remove a rule through the library, remove it through the blueprint knowledge base, remove it from one instance only (before an Execute, or from a listener callback in the middle of one), store+load the knowledge base into the same library with overwrite on/off - against a model kb -> name -> rule text in force. Every rule writes its own JSON sink and retracts itself, so results are order-independent. Invariant after every step, for every knowledge base and 2 fact states: a duplicate build returned an error and left the model's rule in force; a new instance can be created; it has exactly one non-deleted entry per active name; FetchMatchingRules, the listener events and the sinks written by Execute involve exactly the model's active rules and agree with each rule's own text built alone; knowledge bases do not influence one another. Non-trivial: the history contains remove->re-build, remove->store/load or a double removal of one name. Distinct by the history.")
	defer col.Flush()
	_ = flag.Set("rapid.steps", "10")
	stCfg := gen.StateCfg{D: gen.Small, JSON: true, Top: true}
	paths := gen.AllPaths(stCfg)
	check(t, 0, budget(2000, 16000), func(rt *rapid.T) {
		w := &c16World{lib: ast.NewKnowledgeLibrary(), model: newC16Model(), soloCache: map[string][]c07Outcome{}}
		for i := 0; i < 2; i++ {
			w.states = append(w.states, gen.SeededState(rapid.Uint64Range(0, 1<<16).Draw(rt, "state_seed"), stCfg))
		}
		hist := &c16Case{States: w.states}
		g := gen.NewXG(rt, gen.ExprCfg{Paths: paths, Recv: "F", StrFuncs: true, SmallLits: true, NoPtrNum: true})
		namePool := []string{"R1", "R2", "R3", "R4", "R11", "R1x"}
		removedCount := map[string]int{}
		flags := map[string]bool{}
		mkRule := func(rt *rapid.T, name string) *gast.Rule {
			cond := g.Bool(rapid.IntRange(1, 2).Draw(rt, "cond_depth"))
			if rapid.IntRange(0, 2).Draw(rt, "cond_true") == 0 {
				cond = gast.B(true)
			}
			vt := []gast.Type{gast.TInt, gast.TStr}[rapid.IntRange(0, 1).Draw(rt, "val_type")]
			return c16MkRule(name, cond, g.OfType(vt, 1))
		}
		step := func(op c16Op) {
			hist.Ops = append(hist.Ops, op)
			v := w.apply(op)
			instRemove := map[int]string{}
			if op.Op == "removeFromInstance" {
				instRemove[op.KB] = op.Name
			}
			c16MidRemove = nil
			if op.Op == "removeDuringExecute" {
				c16MidRemove = map[int]string{op.KB: op.Name}
			}
			v = append(v, w.invariant(instRemove)...)
			c16MidRemove = nil
			nt := flags["rebuild_after_remove"] || flags["storeload_after_remove"] || flags["double_removal"]
			var labels []string
			labels = append(labels, "op:"+op.Op)
			for f := range flags {
				labels = append(labels, f)
			}
			col.Case(gastKey(hist.Ops), nt, labels...)
			if col.WantSample(nt) {
				col.Sample(map[string]interface{}{"history": c16Describe(hist.Ops)}, nt)
			}
			if len(v) > 0 {
				if len(v) > 8 {
					v = v[:8]
				}
				msg := strings.Join(v, "\n") + "\n--- history ---\n" + strings.Join(c16Describe(hist.Ops), "\n")
				path := col.Violation("C16", "C16/"+op.Op+"/"+firstWords(v[0]), msg, hist)
				rt.Fatalf("C16 violated: %s (replay %s)", msg, path)
			}
		}
		// histories that matter revisit the same knowledge base and the same names: the first knowledge
		// base is preferred, and removals prefer names that are active in the model
		pickKB := func(rt *rapid.T) int {
			if rapid.IntRange(0, 2).Draw(rt, "kb_first") > 0 {
				return 0
			}
			return rapid.IntRange(0, len(c16KBs)-1).Draw(rt, "kb")
		}
		pickName := func(rt *rapid.T, kb int) string {
			var act []string
			for n := range w.model.active[kb] {
				act = append(act, n)
			}
			sort.Strings(act)
			if len(act) > 0 && rapid.IntRange(0, 3).Draw(rt, "name_active") > 0 {
				return act[rapid.IntRange(0, len(act)-1).Draw(rt, "active_name")]
			}
			return namePool[rapid.IntRange(0, len(namePool)-1).Draw(rt, "name")]
		}
		rt.Repeat(map[string]func(*rapid.T){
			"build": func(rt *rapid.T) {
				kb := pickKB(rt)
				n := rapid.IntRange(1, 3).Draw(rt, "nrules")
				var rules []*gast.Rule
				for i := 0; i < n; i++ {
					name := namePool[rapid.IntRange(0, len(namePool)-1).Draw(rt, "name")]
					if w.model.removed[kb][name] {
						flags["rebuild_after_remove"] = true
					}
					if live := w.model.active[kb][name]; live != nil {
						flags["duplicate_build"] = true
						if rapid.Bool().Draw(rt, "duplicate_identical") {
							// the very same rule submitted again (the usual way a duplicate arrives)
							flags["duplicate_build_identical_text"] = true
							rules = append(rules, live)
							continue
						}
					}
					rules = append(rules, mkRule(rt, name))
				}
				step(c16Op{Op: "build", KB: kb, Rules: gast.EncodeRules(rules), JSON: rapid.IntRange(0, 3).Draw(rt, "json_front_end") == 0})
			},
			"removeFromLibrary": func(rt *rapid.T) {
				kb := pickKB(rt)
				name := pickName(rt, kb)
				if w.model.active[kb][name] != nil {
					removedCount[fmt.Sprint(kb, name)]++
					if removedCount[fmt.Sprint(kb, name)] >= 2 {
						flags["double_removal"] = true
					}
				}
				step(c16Op{Op: "removeFromLibrary", KB: kb, Name: name})
			},
			"removeFromBlueprint": func(rt *rapid.T) {
				kb := pickKB(rt)
				name := pickName(rt, kb)
				if w.model.active[kb][name] != nil {
					removedCount[fmt.Sprint(kb, name)]++
					if removedCount[fmt.Sprint(kb, name)] >= 2 {
						flags["double_removal"] = true
					}
				}
				step(c16Op{Op: "removeFromBlueprint", KB: kb, Name: name})
			},
			"removeFromInstance": func(rt *rapid.T) {
				kb := pickKB(rt)
				name := pickName(rt, kb)
				step(c16Op{Op: "removeFromInstance", KB: kb, Name: name})
			},
			"removeDuringExecute": func(rt *rapid.T) {
				kb := pickKB(rt)
				name := pickName(rt, kb)
				step(c16Op{Op: "removeDuringExecute", KB: kb, Name: name})
			},
			"storeLoad": func(rt *rapid.T) {
				kb := pickKB(rt)
				if len(w.model.removed[kb]) > 0 {
					flags["storeload_after_remove"] = true
				}
				// overwrite=false leaves the stored-from knowledge base in the library (the load is refused)
				step(c16Op{Op: "storeLoad", KB: kb, Overwrite: rapid.Bool().Draw(rt, "overwrite")})
			},
		})
	})
	c16KnownProbes(t, col)
}

func c16Describe(ops []c16Op) []string {
	var out []string
	for _, op := range ops {
		switch op.Op {
		case "build":
			rules, _ := gast.DecodeRules(op.Rules)
			out = append(out, fmt.Sprintf("build into %s: %s", c16KBs[op.KB], strings.ReplaceAll(strings.TrimSpace(gast.RulesString(rules)), "\n", " | ")))
		case "storeLoad":
			out = append(out, fmt.Sprintf("store+load %s overwrite=%v", c16KBs[op.KB], op.Overwrite))
		default:
			out = append(out, fmt.Sprintf("%s %s of %s", op.Op, op.Name, c16KBs[op.KB]))
		}
	}
	return out
}

// c16KnownProbes replays the recorded input of the open finding about ':' in names.
func c16KnownProbes(t *testing.T, col *stats.Collector) {
	lib := ast.NewKnowledgeLibrary()
	e1, _ := obs.BuildInto(lib, "a:b", "c", "rule X { when true then Retract(\"X\"); }")
	e2, _ := obs.BuildInto(lib, "a", "b:c", "rule Y { when true then Retract(\"Y\"); }")
	kb1 := lib.GetKnowledgeBase("a:b", "c")
	kb2 := lib.GetKnowledgeBase("a", "b:c")
	collide := e1 == nil && e2 == nil && kb1 == kb2
	if collide {
		if stats.IsOpen("C16", "kb-key-colon") {
			col.Known("C16", "kb-key-colon", "knowledge bases (\"a:b\",\"c\") and (\"a\",\"b:c\") share one library slot: their rules end up in one knowledge base")
		} else {
			path := col.Violation("C16", "C16/kb-key-colon", "knowledge bases (\"a:b\",\"c\") and (\"a\",\"b:c\") share one library slot", map[string]interface{}{"probe": "kb-key-colon"})
			t.Errorf("C16 violated: distinct name/version pairs influence one another (replay %s)", path)
		}
	}
}

func init() {
	replayers["C16"] = func(raw json.RawMessage) error {
		var h c16Case
		if err := json.Unmarshal(raw, &h); err != nil {
			return err
		}
		if len(h.Ops) == 0 {
			return fmt.Errorf("fixed-input probe: re-run ./check C16 quick")
		}
		for try := 0; try < 4; try++ {
			w := &c16World{lib: ast.NewKnowledgeLibrary(), model: newC16Model(), soloCache: map[string][]c07Outcome{}, states: h.States}
			for _, op := range h.Ops {
				v := w.apply(op)
				instRemove := map[int]string{}
				if op.Op == "removeFromInstance" {
					instRemove[op.KB] = op.Name
				}
				c16MidRemove = nil
				if op.Op == "removeDuringExecute" {
					c16MidRemove = map[int]string{op.KB: op.Name}
				}
				v = append(v, w.invariant(instRemove)...)
				c16MidRemove = nil
				if len(v) > 0 {
					return fmt.Errorf("%s", strings.Join(v, "; "))
				}
			}
		}
		return nil
	}
}
