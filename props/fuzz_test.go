package props

import (
	"fmt"
	"os"
	"path/filepath"
	"runtime"
	"strings"
	"testing"
	"time"

	"pgregory.net/rapid"

	"verif/internal/gen"
	"verif/internal/stats"
)

// Native coverage-guided fuzz targets (thorough tier only; the driver runs each for a fixed
// -fuzztime after the seeded rapid search). The semantic oracle is inside the target; a failure
// writes a replay file and prints a FUZZ-VIOLATION line that the driver turns into a VIOLATION.

func fuzzViolation(t *testing.T, prop, sig, msg string, replay interface{}) {
	col := stats.New(prop, "")
	path := col.Violation(prop, sig, msg, replay)
	// one file per distinct failing input would be overwritten by the shard naming: give it its own name
	np := strings.TrimSuffix(path, ".json") + fmt.Sprintf("-fuzz-%d.json", time.Now().UnixNano())
	if err := os.Rename(path, np); err == nil {
		path = np
	}
	fmt.Printf("FUZZ-VIOLATION property=%s replay=%s\n", prop, path)
	t.Fatalf("%s violated: %s (replay %s)", prop, msg, path)
}

func grlSeeds(f *testing.F) {
	// the repository's own GRL texts as seeds (small text grammar: a few valid examples suffice)
	for _, pat := range []string{"/repo/examples/*.grl", "/repo/examples/benchmark/100_rules.grl", "/repo/antlr/*.grl"} {
		files, _ := filepath.Glob(pat)
		for _, fn := range files {
			if b, err := os.ReadFile(fn); err == nil && len(b) < 16<<10 {
				f.Add(b)
			}
		}
	}
	f.Add([]byte(`rule A "d" salience 10 { when F.I64 > 1 && F.S == "x" then F.I64 = F.I64 + 1; Retract("A"); }`))
	f.Add([]byte("rule B { when !(F.B) || F.Arr[1] % 2 == 0 then F.M[\"a\"] += 0x1F; F.F64 = 1.5e3; }"))
	f.Add([]byte(`rule C salience -1 { when F.Cat(",", 'a', "b").Len() >= 2 then Log("x"); }`))
	f.Add([]byte(""))
}

// FuzzC17: BuildRuleFromResource accepts exactly what the independent recogniser accepts.
func FuzzC17(f *testing.F) {
	grlSeeds(f)
	st := gen.SeededState(1, gen.StateCfg{D: gen.Small, JSON: true, Top: true})
	f.Fuzz(func(t *testing.T, data []byte) {
		if len(data) > 8<<10 {
			return
		}
		in := c20Input{Target: c20GRL, Data: data}
		if longestChain(in) >= 32 {
			return // the open finding about cubic build cost would only slow the campaign down
		}
		v, verdict, err := c17Check(nil, string(data), st)
		if err != nil {
			t.Skip()
		}
		if len(v) > 0 {
			fuzzViolation(t, "C17", "C17/fuzz/"+firstWords(v[0]), strings.Join(v, "\n")+"\n--- text ---\n"+string(data)+"\n--- recogniser: "+verdict.V.String()+" "+verdict.Reason,
				c17Case{Text: string(data), State: st})
		}
	})
}

// fuzzLoader is the in-process variant of the C20 oracle: no escaping panic, bounded allocation,
// bounded time. (A process-killing allocation is reported by the fuzzing engine itself.)
func fuzzLoader(t *testing.T, target int, data []byte) {
	if len(data) > 16<<10 {
		return
	}
	in := c20Input{Target: target, Kind: "native-fuzz", Data: data}
	if (target == c20GRL || target == c20JSONRule) && longestChain(in) >= 32 {
		return
	}
	var m0, m1 runtime.MemStats
	runtime.ReadMemStats(&m0)
	t0 := time.Now()
	status, detail := c20InProcess(target, data)
	d := time.Since(t0)
	runtime.ReadMemStats(&m1)
	r := c20Result{Status: status, Detail: detail, Alloc: m1.TotalAlloc - m0.TotalAlloc, Dur: d}
	if v, known := c20Judge(in, r); v != "" && !known {
		fuzzViolation(t, "C20", "C20/fuzz/"+c20TargetName[target], v, c20Describe(in))
	}
}

func FuzzC20GRL(f *testing.F) {
	grlSeeds(f)
	f.Fuzz(func(t *testing.T, data []byte) { fuzzLoader(t, c20GRL, data) })
}

func FuzzC20JSONRule(f *testing.F) {
	f.Add([]byte(`{"name":"R","desc":"d","salience":3,"when":{"and":[{"eq":[{"obj":"F.B"},{"const":true}]},{"lt":["F.I64",10]}]},"then":[{"set":["F.I64",{"plus":["F.I64",1]}]},{"call":["Log",{"const":"x"}]}]}`))
	f.Add([]byte(`[{"name":"A","when":"true","then":["Retract(\"A\")"]},{"name":"B","when":{"not":[{"gt":["F.I64",1]}]},"then":["F.I64 = 0"]}]`))
	f.Add([]byte(`{}`))
	f.Add([]byte(``))
	f.Fuzz(func(t *testing.T, data []byte) {
		fuzzLoader(t, c20JSONTranslate, data)
		fuzzLoader(t, c20JSONRule, data)
	})
}

func FuzzC20JSONFact(f *testing.F) {
	f.Add([]byte(`{"n":1,"f":2.5,"s":"x","b":true,"o":{"x":3,"k":{"z":null}},"arr":[1,2,3],"m":{"k1":1e3}}`))
	f.Add([]byte(`[[[[]]]]`))
	f.Add([]byte(`"s"`))
	f.Fuzz(func(t *testing.T, data []byte) { fuzzLoader(t, c20JSONFact, data) })
}

func FuzzC20GRB(f *testing.F) {
	for _, text := range []string{
		"rule A { when F.I64 > 1 then F.I64 = 0; }",
		`rule A "d" salience 10 { when F.I64 > 1 && F.S == "x" then F.I64 = F.I64 + 1; Retract("A"); } rule B { when !(F.B) then F.M["a"] += 2; }`,
	} {
		if b := storedImage(text); b != nil {
			f.Add(b)
		}
	}
	f.Add([]byte{})
	f.Fuzz(func(t *testing.T, data []byte) { fuzzLoader(t, c20GRB, data) })
}

// FuzzC05 drives the C05 property through rapid's fuzz adapter (coverage-guided over the
// generator's choice stream).
func FuzzC05(f *testing.F) {
	col := stats.New("C05", "")
	ampOpen := stats.IsOpen("C05", "amp-precedence")
	f.Fuzz(rapid.MakeFuzz(func(rt *rapid.T) {
		c05Property(rt, col, ampOpen, 4, true)
	}))
}
