package props

import (
	"encoding/json"
	"fmt"
	"math"
	"strconv"
	"strings"
	"testing"

	"pgregory.net/rapid"

	"verif/internal/facts"
	"verif/internal/gast"
	"verif/internal/gen"
	"verif/internal/obs"
	"verif/internal/ref"
	"verif/internal/stats"
)

// C05: GRL expressions evaluate per the documented operator and literal semantics.

type c05Case struct {
	Type   string       `json:"type"`
	Expr   interface{}  `json:"expr"`
	Canon  string       `json:"canonical_text"`
	Texts  []string     `json:"renderings"`
	State  *facts.State `json:"state"`
	DocPre bool         `json:"doc_precedence"`
}

var c05Sinks = map[gast.Type]string{gast.TInt: "I64", gast.TFloat: "F64", gast.TStr: "S", gast.TBool: "B", gast.TTime: "T"}

var c05StateCfg = gen.StateCfg{D: gen.Boundary, JSON: true, Top: true}

func c05Type(s string) gast.Type {
	switch s {
	case "int":
		return gast.TInt
	case "float":
		return gast.TFloat
	case "string":
		return gast.TStr
	case "bool":
		return gast.TBool
	}
	return gast.TTime
}

// c05Observe builds the two probe rules around one rendering, runs them on copies of st and
// returns the sink value and (for booleans) the candidate flag.
func c05Observe(typ gast.Type, text string, st *facts.State) (sink interface{}, cand bool, err error) {
	var b strings.Builder
	fmt.Fprintf(&b, "rule V salience 10 { when true then F.%s = %s ; Retract(\"V\"); }\n", c05Sinks[typ], text)
	if typ == gast.TBool {
		fmt.Fprintf(&b, "rule C { when %s then Retract(\"C\"); }\n", text)
	}
	lib, berr := obs.Build(b.String())
	if berr != nil {
		return nil, false, fmt.Errorf("the builder rejected a valid text: %v", describeBuildErr(berr))
	}
	if typ == gast.TBool {
		kb, ierr := obs.Instance(lib)
		if ierr != nil {
			return nil, false, fmt.Errorf("instance: %v", ierr)
		}
		s1 := st.Copy()
		dc, derr := obs.NewDataContext(s1)
		if derr != nil {
			return nil, false, derr
		}
		names, _, ferr, pan := obs.Fetch(kb, dc, true)
		if pan != nil {
			return nil, false, fmt.Errorf("FetchMatchingRules panicked: %v", pan)
		}
		if ferr != nil {
			return nil, false, fmt.Errorf("evaluating the condition failed: %v", ferr)
		}
		for _, n := range names {
			if n == "C" {
				cand = true
			}
		}
	}
	kb, ierr := obs.Instance(lib)
	if ierr != nil {
		return nil, false, fmt.Errorf("instance: %v", ierr)
	}
	s2 := st.Copy()
	dc, derr := obs.NewDataContext(s2)
	if derr != nil {
		return nil, false, derr
	}
	if typ == gast.TBool {
		// only the sink rule matters in this run
		kb.RemoveRuleEntry("C")
	}
	res := obs.Execute(kb, dc, obs.RunOpts{MaxCycle: 3})
	if res.Panicked != nil {
		return nil, false, fmt.Errorf("a panic escaped Execute: %v", res.Panicked)
	}
	if res.Err != nil {
		return nil, false, fmt.Errorf("evaluating the expression failed: %v", res.Err)
	}
	f := s2.Go["F"]
	switch typ {
	case gast.TInt:
		sink = f.I64
	case gast.TFloat:
		sink = f.F64
	case gast.TStr:
		sink = f.S
	case gast.TBool:
		sink = f.B
	case gast.TTime:
		sink = f.T
	}
	return sink, cand, nil
}

func describeBuildErr(err error) string {
	return err.Error() + reporterDetails(err)
}

func c05Compare(typ gast.Type, want ref.Val, sink interface{}, cand bool) error {
	switch typ {
	case gast.TInt:
		if want.K != ref.KInt {
			return fmt.Errorf("harness: reference value is %s, not int", want.K)
		}
		if sink.(int64) != want.I {
			return fmt.Errorf("value %d, documented value %d", sink.(int64), want.I)
		}
	case gast.TFloat:
		var w float64
		switch want.K {
		case ref.KFloat:
			w = want.F
		case ref.KInt:
			w = float64(want.I)
		default:
			return fmt.Errorf("harness: reference value is %s, not float", want.K)
		}
		g := sink.(float64)
		if g != w && !(math.Abs(g-w) <= 1e-12*math.Max(math.Abs(g), math.Abs(w))) {
			return fmt.Errorf("value %v, documented value %v", g, w)
		}
	case gast.TStr:
		if want.K != ref.KStr {
			return fmt.Errorf("harness: reference value is %s, not string", want.K)
		}
		if !ref.MatchTemplate(want, sink.(string)) {
			return fmt.Errorf("value %q, documented value %q", sink.(string), want.S)
		}
	case gast.TBool:
		if want.K != ref.KBool {
			return fmt.Errorf("harness: reference value is %s, not bool", want.K)
		}
		if sink.(bool) != want.B {
			return fmt.Errorf("assigned value %v, documented value %v", sink.(bool), want.B)
		}
		if cand != want.B {
			return fmt.Errorf("as a condition the expression is %v, documented value %v", cand, want.B)
		}
	case gast.TTime:
		if want.K != ref.KTime {
			return fmt.Errorf("harness: reference value is %s, not time", want.K)
		}
		if !sinkTimeEqual(sink, want) {
			return fmt.Errorf("value %v, documented value %v", sink, want.T)
		}
	}
	return nil
}

func c05RunCase(c *c05Case, expr gast.Expr) (string, error) {
	typ := c05Type(c.Type)
	want, err := ref.New(c.State.Copy()).Eval(expr)
	if err != nil {
		return "", fmt.Errorf("harness: reference failed on a replayed case: %v", err)
	}
	for i, text := range c.Texts {
		sink, cand, oerr := c05Observe(typ, text, c.State)
		if oerr != nil {
			return fmt.Sprintf("rendering %d", i), fmt.Errorf("rendering %d %q: %v", i, text, oerr)
		}
		if cerr := c05Compare(typ, want, sink, cand); cerr != nil {
			return fmt.Sprintf("rendering %d", i), fmt.Errorf("rendering %d %q: %v", i, text, cerr)
		}
	}
	return "", nil
}

// exprShape returns operator count, number of distinct precedence levels and literal features.
func exprShape(e gast.Expr) (ops int, levels int, amp bool) {
	lv := map[int]bool{}
	gast.Walk(e, func(x gast.Expr) {
		if b, ok := x.(*gast.Bin); ok {
			ops++
			lv[gast.DocLevel(b.Op)] = true
			if b.Op == gast.OpBAnd {
				amp = true
			}
		}
	})
	return ops, len(lv), amp
}

var c05Failing = []func() gast.Expr{
	func() gast.Expr { return &gast.Bin{Op: gast.OpEq, L: gast.P("F", "Arr").At(gast.I(99)), R: gast.I(1)} },
	func() gast.Expr { return &gast.Bin{Op: gast.OpEq, L: gast.P("F", "NoSuchField"), R: gast.I(1)} },
	func() gast.Expr { return &gast.Bin{Op: gast.OpEq, L: gast.P("F", "M").At(gast.S("zz")), R: gast.I(1)} },
	func() gast.Expr {
		return &gast.Bin{Op: gast.OpEq, L: &gast.Call{Recv: gast.P("F"), Name: "Boom"}, R: gast.I(1)}
	},
	func() gast.Expr {
		return &gast.Bin{Op: gast.OpEq, L: &gast.Bin{Op: gast.OpMod, L: gast.I(1), R: gast.I(0)}, R: gast.I(1)}
	},
	func() gast.Expr { return &gast.Bin{Op: gast.OpEq, L: gast.P("Missing", "X"), R: gast.I(1)} },
	func() gast.Expr {
		return &gast.Bin{Op: gast.OpEq, L: &gast.Member{X: &gast.Call{Recv: gast.P("F"), Name: "NilSub"}, Field: "X"}, R: gast.I(1)}
	},
}

func TestC05(t *testing.T) {
	col := stats.New("C05", "well-typed expression trees (int, float, string, bool, time) generated type-directed over all operators, operand kinds (every int/uint/float width through fields, slices, maps, nested pointers, interfaces, JSON members, top-level variables), literals, built-in string/array/map functions, fact methods (variadic, chains) and short-circuit shapes whose skipped operand would fail; each tree is printed in 4 legal renderings (spacing, comments, redundant parentheses, keyword case, literal notation, quoting) and evaluated by the engine as an assigned value (typed sink) and, for booleans, as a rule condition; the oracle is the harness's reference interpreter written from the documentation. Value-receiver methods of the nested object type are called on the struct value (F.Val), through pointers (F.Sub, F.Subs[i]) and on call results (F.Mk(k)). Non-trivial: at least 3 binary operators from at least 2 precedence levels. Distinct by canonical text plus state seed.",
		"overflow, division by zero and NaN/Inf are excluded (cases whose reference evaluation hits them are discarded and counted)",
		"the decimal format of floats inside string concatenations is undocumented: any rendering that parses back to the value within 1e-6 (or 1e-12 relative) is accepted",
		"booleans and times are concatenated only on the right of a string (the only form the engine and its examples define)")
	defer col.Flush()
	ampOpen := stats.IsOpen("C05", "amp-precedence")
	maxDepth := 4
	if stats.Thorough() {
		maxDepth = 5
	}
	check(t, 0, budget(16000, 200000), func(rt *rapid.T) { c05Property(rt, col, ampOpen, maxDepth, false) })
	c05KnownProbes(t, col)
	c05LiteralSeeds(t, col)
}

// c05Property is one generated case of the C05 check (also driven by the native fuzz target).
func c05Property(rt *rapid.T, col *stats.Collector, ampOpen bool, maxDepth int, fuzz bool) {
	{
		typName := rapid.SampledFrom([]string{"int", "int", "float", "float", "string", "string", "bool", "bool", "bool", "time"}).Draw(rt, "type")
		typ := c05Type(typName)
		seed := rapid.Uint64Range(0, 1<<20).Draw(rt, "state_seed")
		st := gen.SeededState(seed, c05StateCfg)
		paths := append(gen.AllPaths(c05StateCfg), gen.ROPaths("F")...)
		g := gen.NewXG(rt, gen.ExprCfg{Paths: paths, Recv: "F", FloatConcat: true, Hostile: true, Builtins: true, StrFuncs: true, Chains: true, ComputedIndex: true, MixedSign: true})
		depth := rapid.IntRange(1, maxDepth).Draw(rt, "depth")
		expr := g.OfType(typ, depth)
		labels := []string{"type:" + typName, fmt.Sprintf("depth:%d", depth)}
		if typ == gast.TBool && rapid.IntRange(0, 7).Draw(rt, "shortcircuit") == 0 {
			fail := c05Failing[rapid.IntRange(0, len(c05Failing)-1).Draw(rt, "failing")]()
			// the deciding left operand: a compound expression, or a boolean behind a pointer / inside an interface
			// value / a top-level variable / a JSON member, read directly
			wrapped := rapid.IntRange(0, 4).Draw(rt, "sc_wrapped")
			if rapid.Bool().Draw(rt, "sc_or") {
				var l gast.Expr = &gast.Bin{Op: gast.OpOr, L: expr, R: gast.B(true)}
				switch wrapped {
				case 1:
					l = gast.P("F", "PTrue")
				case 2:
					l = gast.P("F", "ATrue")
				}
				expr = &gast.Bin{Op: gast.OpOr, L: l, R: fail}
			} else {
				var l gast.Expr = &gast.Bin{Op: gast.OpAnd, L: expr, R: gast.B(false)}
				switch wrapped {
				case 1:
					l = gast.P("F", "PFalse")
				case 2:
					l = gast.P("F", "AFalse")
				}
				expr = &gast.Bin{Op: gast.OpAnd, L: l, R: fail}
			}
			labels = append(labels, "shortcircuit_failing_operand")
			if wrapped == 1 || wrapped == 2 {
				labels = append(labels, "shortcircuit_decided_by_wrapped_boolean")
			}
		}
		// explicit (shrinkable) values for the locations the expression reads
		used := map[string]gen.PathInfo{}
		byText := map[string]gen.PathInfo{}
		for _, p := range paths {
			byText[p.Text] = p
		}
		gast.Walk(expr, func(x gast.Expr) {
			if p, ok := x.(*gast.Path); ok {
				if pi, ok := byText[gast.ExprString(p)]; ok && pi.Writable {
					used[pi.Text] = pi
				}
			}
		})
		for _, k := range sortedKeysOf(used) {
			pi := used[k]
			if pi.T == gast.TTime {
				continue
			}
			if rapid.Bool().Draw(rt, "override:"+k) {
				lit := gen.DrawLiteralFor(gen.R{T: rt}, pi, gen.Boundary, "val:"+k)
				if err := ref.New(st).Exec(&gast.Assign{LHS: pi.Mk(), Op: "=", RHS: lit}); err != nil {
					rt.Fatalf("harness: override of %s failed: %v", k, err)
				}
			}
		}
		want, rerr := ref.New(st.Copy()).Eval(expr)
		ops, levels, amp := exprShape(expr)
		nt := ops >= 3 && levels >= 2
		canon := gast.ExprString(expr)
		if rerr != nil {
			if ref.IsUndefined(rerr) {
				col.Case(canon, false, append(labels, "excluded_undefined")...)
				return
			}
			col.Case(canon, false, append(labels, "harness_generator_error")...)
			rt.Fatalf("harness: generator produced an ill-typed or failing expression %s: %v", canon, rerr)
		}
		c := &c05Case{Type: typName, Expr: gast.Encode(expr), Canon: canon, State: st, DocPre: !ampOpen}
		excluded := 0
		for i := 0; i < 4; i++ {
			p := gast.NewPrinter()
			p.DocPrecedence = !ampOpen
			if i > 0 {
				p.C = rchooser{rt}
				p.Vary = true
				p.VaryLits = true
			}
			p.Expr(expr)
			c.Texts = append(c.Texts, p.String())
			excluded += p.AmpExcluded
		}
		if amp {
			labels = append(labels, "has_bitand")
		}
		if excluded > 0 {
			labels = append(labels, "excluded_known_amp_positions")
		}
		for f := range g.Feat {
			labels = append(labels, "feat:"+f)
		}
		labels = append(labels, fmt.Sprintf("ops:%s", bucket(ops)), fmt.Sprintf("levels:%d", levels))
		col.Case(canon+"#"+strconv.FormatUint(seed, 10), nt, labels...)
		if col.WantSample(nt) {
			col.Sample(map[string]interface{}{"type": typName, "renderings": c.Texts, "reference_value": refValString(want)}, nt)
		}
		typ2 := typ
		for i, text := range c.Texts {
			sink, cand, oerr := c05Observe(typ2, text, st)
			var verr error
			if oerr != nil {
				verr = oerr
			} else {
				verr = c05Compare(typ2, want, sink, cand)
			}
			if verr != nil {
				if strings.HasPrefix(verr.Error(), "harness:") {
					rt.Fatalf("%v", verr)
				}
				msg := fmt.Sprintf("expression (canonical) %s\nrendering %d: %s\n%v\nreference value: %s", canon, i, text, verr, refValString(want))
				path := col.Violation("C05", "C05/"+typName, msg, c)
				if fuzz {
					fmt.Printf("FUZZ-VIOLATION property=C05 replay=%s\n", path)
				}
				rt.Fatalf("C05 violated: %s (replay %s)", msg, path)
			}
		}
	}
}

func bucket(n int) string {
	switch {
	case n == 0:
		return "0"
	case n <= 2:
		return "1-2"
	case n <= 5:
		return "3-5"
	case n <= 10:
		return "6-10"
	}
	return ">10"
}

func refValString(v ref.Val) string {
	switch v.K {
	case ref.KInt:
		return fmt.Sprintf("int %d", v.I)
	case ref.KFloat:
		return fmt.Sprintf("float %v", v.F)
	case ref.KStr:
		return fmt.Sprintf("string %q", v.S)
	case ref.KBool:
		return fmt.Sprintf("bool %v", v.B)
	case ref.KTime:
		return fmt.Sprintf("time %v", v.T)
	}
	return v.K.String()
}

func sortedKeysOf(m map[string]gen.PathInfo) []string {
	ks := make([]string, 0, len(m))
	for k := range m {
		ks = append(ks, k)
	}
	sortStrings(ks)
	return ks
}

// c05KnownProbes replays the recorded inputs of the open findings.
func c05KnownProbes(t *testing.T, col *stats.Collector) {
	// `&` is grouped with + - | by the parser, with * / % by the published table
	st := gen.SeededState(1, c05StateCfg)
	sink, _, err := c05Observe(gast.TInt, "6 & 3 * 2", st)
	docVal := int64(6 & 3 * 2) // Go (and the published table): (6&3)*2 = 4
	bad := err != nil || sink.(int64) != docVal
	if bad {
		if stats.IsOpen("C05", "amp-precedence") {
			col.Known("C05", "amp-precedence", fmt.Sprintf("`6 & 3 * 2` evaluates to %v, the published precedence table (and Go) give %d", sink, docVal))
		} else {
			path := col.Violation("C05", "C05/amp-precedence", fmt.Sprintf("`6 & 3 * 2` evaluates to %v (err %v), the published precedence table gives %d", sink, err, docVal), map[string]interface{}{"text": "6 & 3 * 2"})
			t.Errorf("C05 violated: & precedence (replay %s)", path)
		}
	}
}

// The literal examples of docs/en/GRL_Literals_en.md with their Go values.
var c05DocLiterals = []struct {
	Text string
	Int  bool
	I    int64
	F    float64
}{
	{"0", true, 0, 0}, {"123", true, 123, 0}, {"34592", true, 34592, 0}, {"-1", true, -1, 0}, {"-47234", true, -47234, 0},
	{"01", true, 1, 0}, {"07", true, 7, 0}, {"010", true, 8, 0}, {"017", true, 15, 0}, {"-034", true, -28, 0}, {"-045", true, -37, 0},
	{"0x1", true, 1, 0}, {"0xF", true, 15, 0}, {"0x10", true, 16, 0}, {"0x1F", true, 31, 0}, {"0xFF00", true, 0xFF00, 0}, {"-0x12", true, -0x12, 0},
	{"-0x00ABCD", true, -0xABCD, 0}, {"-0x890AbCdEf", true, -0x890AbCdEf, 0},
	{"0.", false, 0, 0}, {"72.40", false, 0, 72.40}, {"072.40", false, 0, 72.40}, {"2.71828", false, 0, 2.71828}, {"1.e+0", false, 0, 1}, {"6.67428e-11", false, 0, 6.67428e-11},
	{"1E6", false, 0, 1e6}, {".25", false, 0, .25}, {".12345E+5", false, 0, .12345e+5}, {"-072.40", false, 0, -72.40}, {"-2.71828", false, 0, -2.71828}, {"-1.e+0", false, 0, -1},
	{"0x1p-2", false, 0, 0x1p-2}, {"0x2.p10", false, 0, 0x2.p10}, {"0x1.Fp+0", false, 0, 0x1.Fp+0}, {"0X.8p-0", false, 0, 0x.8p-0}, {"0X_1FFFP-16", false, 0, 0x_1FFFp-16},
}

func c05LiteralSeeds(t *testing.T, col *stats.Collector) {
	st := gen.SeededState(2, c05StateCfg)
	var rejected []string
	for _, l := range c05DocLiterals {
		typ := gast.TFloat
		if l.Int {
			typ = gast.TInt
		}
		sink, _, err := c05Observe(typ, l.Text, st)
		col.Case("doclit:"+l.Text, false, "documented_literal_example")
		if err != nil {
			rejected = append(rejected, l.Text)
			continue
		}
		ok := false
		if l.Int {
			ok = sink.(int64) == l.I
		} else {
			ok = sink.(float64) == l.F
		}
		if !ok {
			path := col.Violation("C05", "C05/doc-literal-value", fmt.Sprintf("documented literal %s denotes %v in the engine", l.Text, sink), map[string]interface{}{"text": l.Text})
			t.Errorf("C05 violated: literal %s has value %v (replay %s)", l.Text, sink, path)
		}
	}
	if len(rejected) > 0 {
		if stats.IsOpen("C05", "doc-literals-rejected") {
			col.Known("C05", "doc-literals-rejected", fmt.Sprintf("documented literal notations rejected by the lexer: %s", strings.Join(rejected, " ")))
			// a different set than the recorded one is a new violation
			want := "0. 072.40 1.e+0 -072.40 -1.e+0 0X_1FFFP-16"
			if strings.Join(rejected, " ") != want {
				path := col.Violation("C05", "C05/doc-literals-rejected-changed", fmt.Sprintf("rejected documented literals are now %q, recorded finding lists %q", strings.Join(rejected, " "), want), map[string]interface{}{"rejected": rejected})
				t.Errorf("C05 violated: set of rejected documented literals changed (replay %s)", path)
			}
		} else {
			path := col.Violation("C05", "C05/doc-literals-rejected", fmt.Sprintf("documented literal notations rejected: %s", strings.Join(rejected, " ")), map[string]interface{}{"rejected": rejected})
			t.Errorf("C05 violated: documented literals rejected (replay %s)", path)
		}
	}
}

func init() {
	replayers["C05"] = func(raw json.RawMessage) error {
		var probe struct {
			Text     string   `json:"text"`
			Rejected []string `json:"rejected"`
		}
		_ = json.Unmarshal(raw, &probe)
		if probe.Text != "" || probe.Rejected != nil {
			return fmt.Errorf("fixed-input probe: re-run ./check C05 quick")
		}
		var c c05Case
		if err := json.Unmarshal(raw, &c); err != nil {
			return err
		}
		expr, err := gast.Decode(c.Expr)
		if err != nil {
			return err
		}
		_, err = c05RunCase(&c, expr)
		return err
	}
}
