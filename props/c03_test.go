package props

import (
	"fmt"
	"testing"

	"pgregory.net/rapid"

	"verif/internal/gen"
	"verif/internal/stats"
)

// C03: exactly one highest-salience satisfied rule fires per cycle.

func TestC03(t *testing.T) {
	col := stats.New("C03", "rule sets of 2-7 rules with shallow, often simultaneously true conditions and saliences drawn from {omitted (default 0), 0, +-1, small, +-10, 100, MaxInt32, MinInt32} with deliberate ties; per cycle the conflict set is recomputed with fresh single-rule engines: at most one execution event, the fired rule's salience is maximal among the satisfied active rules, and the facts after the firing equal the reference replay of its complete action list before the next cycle's first evaluation. Each case runs 2-3 times with fresh instances (map order re-drawn). A third of the cases with probes run another knowledge base on the same engine value from inside a probe invocation (one drawn invocation, or every invocation from it on); half of those get the conjunct F.PV(id, h) == h, h a location the rules write, in front of one condition. Non-trivial: a cycle with at least 2 satisfied rules of different salience. Distinct by rule text + state.",
		"ties are broken arbitrarily by the engine; the validator accepts any maximal rule")
	defer col.Flush()
	rc := fullRuleCfg()
	rc.MinRules, rc.MaxRules, rc.ExprDepth, rc.MaxActions = 2, 7, 2, 2
	rc.Forget = false
	rc.Probes = true
	cfg := rsGenCfg{Rules: rc, Vary: true, JSONFront: true, GRB: true, Rejected: true}
	_ = gen.Small
	check(t, 0, budget(6000, 80000), func(rt *rapid.T) {
		c, rs := genRSCase(rt, cfg)
		maybeFailingConditions(rt, c, rs)
		maybeUsedBefore(rt, c, rs, cfg.Rules.State)
		maybeNested(rt, c, rs)
		rep, v := runValidated(rt, c, "C03")
		nt := rep.MultiCand > 0
		labels := append(featLabels(rs), "ended:"+rep.EndedBy, "firings:"+bucket(rep.Firings))
		if rep.TieCycles > 0 {
			labels = append(labels, "cycle_with_tie")
		}
		if rep.NegSal > 0 {
			labels = append(labels, "cycle_with_negative_salience")
		}
		if rep.MultiCand > 0 {
			labels = append(labels, "cycle_with_different_saliences")
		}
		for _, r := range c.Rules {
			switch {
			case r.Salience == nil:
				labels = append(labels, "salience_omitted")
			case *r.Salience == 2147483647 || *r.Salience == -2147483648:
				labels = append(labels, "salience_int32_limit")
			}
		}
		if rep.Excluded != "" {
			labels = append(labels, "excluded_out_of_quantifier")
		}
		col.Case(c.Text+fmt.Sprint(c.Init.Go["F"].I64, c.MaxCycle), nt, labels...)
		if col.WantSample(nt) {
			col.Sample(sampleOf(c, rep), nt)
		}
		if len(v) > 0 {
			reportViolation(rt, col, "C03", c, rep, v)
		}
	})
}

func init() { registerRSReplayer("C03") }
