package props

import (
	"encoding/json"
	"fmt"
	"strings"
	"testing"

	"pgregory.net/rapid"

	"verif/internal/facts"
	"verif/internal/gast"
	"verif/internal/gen"
	"verif/internal/obs"
	"verif/internal/stats"
	"verif/internal/val"
)

// C13: shared sub-expressions are evaluated at most once between invalidations.

// The counted call texts: id <-> text is a bijection, so a probe invocation identifies its text.
type c13Call struct {
	ID   int64
	Mk   func() *gast.Call
	Vars []string // variables occurring in the arguments
	// Use, when set, is the expression placed in the rules (the counted call as receiver of a further call)
	Use func(rt *rapid.T) (gast.Expr, gast.Type)
	// RecvVar, when set, is the variable the call is made on: an assignment to it or below it is
	// accepted as an invalidation event
	RecvVar string
	Bool    bool
}

// c13Stir lists, per counted call, variables that the expression enclosing the call depends on while the
// call itself does not: assigning them re-evaluates the enclosing expression, not the call.
var c13Stir = map[int64][]string{16: {"F.S"}, 17: {"F.S"}}

func c13Sub(recv gast.Expr, name string, id int64, more ...gast.Expr) *gast.Call {
	return &gast.Call{Recv: recv, Name: name, Args: append([]gast.Expr{gast.I(id)}, more...)}
}

func c13Kids(i int64) gast.Expr {
	return &gast.Index{X: &gast.Call{Recv: gast.P("F"), Name: "Kids"}, Idx: gast.I(i)}
}

var c13Calls = []c13Call{
	{1, func() *gast.Call { return &gast.Call{Recv: gast.P("F"), Name: "P", Args: []gast.Expr{gast.I(1)}} }, nil, nil, "", false},
	{2, func() *gast.Call { return &gast.Call{Recv: gast.P("F"), Name: "PB", Args: []gast.Expr{gast.I(2)}} }, nil, nil, "", true},
	{3, func() *gast.Call {
		return &gast.Call{Recv: gast.P("F"), Name: "PV", Args: []gast.Expr{gast.I(3), gast.P("F", "I64")}}
	}, []string{"F.I64"}, nil, "", false},
	{4, func() *gast.Call {
		return &gast.Call{Recv: gast.P("F"), Name: "PV", Args: []gast.Expr{gast.I(4), gast.P("F", "Sub", "X")}}
	}, []string{"F.Sub.X"}, nil, "", false},
	{5, func() *gast.Call {
		return &gast.Call{Recv: gast.P("F"), Name: "PS", Args: []gast.Expr{gast.I(5), gast.P("F", "S")}}
	}, []string{"F.S"}, nil, "", false},
	{6, func() *gast.Call {
		return &gast.Call{Recv: gast.P("F"), Name: "PV", Args: []gast.Expr{gast.I(6), gast.P("F", "Arr").At(gast.I(1))}}
	}, []string{"F.Arr[1]"}, nil, "", false},
	{7, func() *gast.Call {
		return &gast.Call{Recv: gast.P("F"), Name: "PV", Args: []gast.Expr{gast.I(7), &gast.Bin{Op: gast.OpAdd, L: gast.P("F", "I64"), R: gast.P("F", "M").At(gast.S("a"))}}}
	}, []string{"F.I64", `F.M["a"]`}, nil, "", false},
	// other receiver shapes: an element selected from a call result, a call result, a nested variable,
	// a slice element, a map entry; a counted call that is itself the receiver of a further call
	{8, func() *gast.Call { return c13Sub(c13Kids(0), "PX", 8) }, nil, nil, "", false},
	{9, func() *gast.Call { return c13Sub(c13Kids(1), "PBX", 9) }, nil, nil, "", true},
	{10, func() *gast.Call {
		return c13Sub(&gast.Index{X: &gast.Call{Recv: gast.P("F"), Name: "Table"}, Idx: gast.S("k")}, "PX", 10)
	}, nil, nil, "", false},
	{11, func() *gast.Call {
		return c13Sub(&gast.Call{Recv: gast.P("F"), Name: "Mk", Args: []gast.Expr{gast.I(1)}}, "PX", 11)
	}, nil, nil, "", false},
	{12, func() *gast.Call { return c13Sub(gast.P("F", "Sub"), "PX", 12) }, nil, nil, "F.Sub", false},
	{13, func() *gast.Call { return c13Sub(gast.P("F", "Subs").At(gast.I(0)), "PX", 13) }, nil, nil, "F.Subs", false},
	{14, func() *gast.Call { return c13Sub(gast.P("F", "MSub").At(gast.S("a")), "PBX", 14) }, nil, nil, "F.MSub", true},
	{15, func() *gast.Call { return c13Sub(c13Kids(0), "PVX", 15, gast.P("F", "I64")) }, []string{"F.I64"}, nil, "", false},
	{16, func() *gast.Call { return c13Sub(c13Kids(0), "PLabel", 16) }, nil, func(rt *rapid.T) (gast.Expr, gast.Type) {
		inner := c13Sub(c13Kids(0), "PLabel", 16)
		if rapid.Bool().Draw(rt, "label_use") {
			return &gast.Call{Recv: inner, Name: "Len"}, gast.TInt
		}
		// the enclosing call depends on F.S; the counted call inside it does not
		return &gast.Call{Recv: inner, Name: "HasPrefix", Args: []gast.Expr{gast.P("F", "S")}}, gast.TBool
	}, "", false},
	{17, func() *gast.Call { return c13Sub(gast.P("F", "Sub"), "PLabel", 17) }, nil, func(rt *rapid.T) (gast.Expr, gast.Type) {
		inner := c13Sub(gast.P("F", "Sub"), "PLabel", 17)
		if rapid.Bool().Draw(rt, "label_use") {
			return &gast.Call{Recv: inner, Name: "Len"}, gast.TInt
		}
		return &gast.Call{Recv: inner, Name: "HasSuffix", Args: []gast.Expr{gast.P("F", "S")}}, gast.TBool
	}, "F.Sub", false},
}

func c13ByID(id int64) *c13Call {
	for i := range c13Calls {
		if c13Calls[i].ID == id {
			return &c13Calls[i]
		}
	}
	return nil
}

// locations that are never arguments of a counted call (assigning them is a non-event); the
// names are chosen so that none is a substring of a counted call's text
var c13Unrelated = []struct {
	Mk  func() *gast.Path
	Rhs func(rt *rapid.T) gast.Expr
}{
	{func() *gast.Path { return gast.P("F", "I32") }, func(rt *rapid.T) gast.Expr { return gast.I(int64(rapid.IntRange(0, 5).Draw(rt, "u"))) }},
	{func() *gast.Path { return gast.P("F", "I") }, func(rt *rapid.T) gast.Expr { return gast.I(int64(rapid.IntRange(0, 5).Draw(rt, "u"))) }},
	{func() *gast.Path { return gast.P("F", "Sub", "Y") }, func(rt *rapid.T) gast.Expr { return gast.F(1.5) }},
	{func() *gast.Path { return gast.P("F", "S2") }, func(rt *rapid.T) gast.Expr { return gast.S("q") }},
	{func() *gast.Path { return gast.P("F", "Arr").At(gast.I(0)) }, func(rt *rapid.T) gast.Expr { return gast.I(2) }},
	{func() *gast.Path { return gast.P("F", "M").At(gast.S("b")) }, func(rt *rapid.T) gast.Expr { return gast.I(3) }},
	{func() *gast.Path { return gast.P("F", "Val", "X") }, func(rt *rapid.T) gast.Expr { return gast.I(4) }},
}

var c13UnrelatedForget = []string{"F.I32", "F.S2", "F.U16", "Nothing", "G.I64", "F.P(9)", "F.Val.X"}

func c13ValueExpr(rt *rapid.T, calls []*c13Call, label string) (gast.Expr, gast.Type) {
	c := calls[rapid.IntRange(0, len(calls)-1).Draw(rt, label)]
	if c.Use != nil {
		e, ty := c.Use(rt)
		return &gast.Frozen{X: e}, ty
	}
	call := &gast.Frozen{X: c.Mk()}
	if c.Bool {
		return call, gast.TBool
	}
	return call, gast.TInt
}

func c13Cond(rt *rapid.T, calls []*c13Call) gast.Expr {
	mkAtom := func(i int) gast.Expr {
		e, ty := c13ValueExpr(rt, calls, fmt.Sprintf("cond_call%d", i))
		if ty == gast.TBool {
			if rapid.Bool().Draw(rt, "neg") {
				return &gast.Not{X: e}
			}
			return e
		}
		lhs := gast.Expr(e)
		switch rapid.IntRange(0, 3).Draw(rt, "surround") {
		case 1:
			lhs = &gast.Bin{Op: gast.OpAdd, L: e, R: gast.P("F", "I32")}
		case 2:
			lhs = &gast.Bin{Op: gast.OpMul, L: gast.I(2), R: e}
		case 3:
			lhs = &gast.Bin{Op: gast.OpSub, L: &gast.Paren{X: e}, R: gast.I(1)}
		}
		op := []gast.Op{gast.OpLT, gast.OpGT, gast.OpLTE, gast.OpGTE, gast.OpEq, gast.OpNEq}[rapid.IntRange(0, 5).Draw(rt, "cmp")]
		return &gast.Bin{Op: op, L: lhs, R: gast.I(int64(rapid.IntRange(0, 12).Draw(rt, "cmp_rhs")))}
	}
	e := mkAtom(0)
	n := rapid.IntRange(0, 2).Draw(rt, "cond_extra")
	for i := 0; i < n; i++ {
		var other gast.Expr
		if rapid.Bool().Draw(rt, "extra_is_call") {
			other = mkAtom(i + 1)
		} else {
			other = &gast.Bin{Op: gast.OpLT, L: gast.P("F", "I32"), R: gast.I(int64(rapid.IntRange(0, 6).Draw(rt, "extra_lim")))}
		}
		op := []gast.Op{gast.OpAnd, gast.OpOr}[rapid.IntRange(0, 1).Draw(rt, "logic")]
		if rapid.Bool().Draw(rt, "logic_swap") {
			e = &gast.Bin{Op: op, L: other, R: e}
		} else {
			e = &gast.Bin{Op: op, L: e, R: other}
		}
	}
	return e
}

func c13Action(rt *rapid.T, calls []*c13Call, self string) gast.Stmt {
	switch rapid.IntRange(0, 9).Draw(rt, "action") {
	case 0, 1:
		// invalidation: assignment to a variable occurring in some call's arguments (or in the
		// expression enclosing the call)
		var vars []string
		for _, c := range calls {
			vars = append(vars, c.Vars...)
			vars = append(vars, c13Stir[c.ID]...)
		}
		if len(vars) > 0 {
			v := vars[rapid.IntRange(0, len(vars)-1).Draw(rt, "ev_var")]
			switch v {
			case "F.I64":
				return &gast.Assign{LHS: gast.P("F", "I64"), Op: "+=", RHS: gast.I(1)}
			case "F.Sub.X":
				return &gast.Assign{LHS: gast.P("F", "Sub", "X"), Op: "=", RHS: gast.I(int64(rapid.IntRange(0, 5).Draw(rt, "ev_v")))}
			case "F.S":
				return &gast.Assign{LHS: gast.P("F", "S"), Op: "+=", RHS: gast.S("x")}
			case "F.Arr[1]":
				return &gast.Assign{LHS: gast.P("F", "Arr").At(gast.I(1)), Op: "-=", RHS: gast.I(1)}
			default:
				return &gast.Assign{LHS: gast.P("F", "M").At(gast.S("a")), Op: "+=", RHS: gast.I(2)}
			}
		}
		fallthrough
	case 2, 3:
		u := c13Unrelated[rapid.IntRange(0, len(c13Unrelated)-1).Draw(rt, "unrelated")]
		return &gast.Assign{LHS: u.Mk(), Op: "=", RHS: u.Rhs(rt)}
	case 4:
		c := calls[rapid.IntRange(0, len(calls)-1).Draw(rt, "forget_call")]
		return forgetStmt(rt, gast.CompactText(c.Mk()))
	case 5:
		var vars []string
		for _, c := range calls {
			vars = append(vars, c.Vars...)
		}
		if len(vars) > 0 {
			return forgetStmt(rt, vars[rapid.IntRange(0, len(vars)-1).Draw(rt, "forget_var")])
		}
		fallthrough
	case 6:
		return forgetStmt(rt, c13UnrelatedForget[rapid.IntRange(0, len(c13UnrelatedForget)-1).Draw(rt, "forget_unrelated")])
	case 7:
		// the call as a statement
		c := calls[rapid.IntRange(0, len(calls)-1).Draw(rt, "stmt_call")]
		return &gast.CallStmt{X: &gast.Frozen{X: c.Mk()}}
	case 8:
		// the call inside a right-hand side
		e, ty := c13ValueExpr(rt, calls, "rhs_call")
		if ty == gast.TBool {
			return &gast.Assign{LHS: gast.P("F", "B2"), Op: "=", RHS: e}
		}
		return &gast.Assign{LHS: gast.P("F", "I32"), Op: "=", RHS: &gast.Bin{Op: gast.OpMod, L: e, R: gast.I(7)}}
	}
	return &gast.CallStmt{X: &gast.Call{Name: "Retract", Args: []gast.Expr{gast.S(self)}}}
}

func forgetStmt(rt *rapid.T, name string) gast.Stmt {
	fn := "Forget"
	if rapid.IntRange(0, 2).Draw(rt, "changed") == 0 {
		fn = "Changed"
	}
	return &gast.CallStmt{X: &gast.Call{Name: fn, Args: []gast.Expr{gast.S(name)}}}
}

// mentions reports whether the statement's expressions contain the counted call.
func c13Mentions(s gast.Stmt, text string) bool {
	found := false
	gast.WalkStmt(s, func(x gast.Expr) {
		if c, ok := x.(*gast.Call); ok && c.Recv != nil && gast.CompactText(c) == text {
			found = true
		}
	})
	return found
}

// isEvent reports whether the statement is an invalidation event for the call.
func c13IsEvent(s gast.Stmt, c *c13Call, text string) bool {
	switch x := s.(type) {
	case *gast.Assign:
		dst := gast.ExprString(x.LHS)
		for _, v := range c.Vars {
			if v == dst {
				return true
			}
		}
		if c.RecvVar != "" && strings.HasPrefix(dst, c.RecvVar) {
			return true
		}
	case *gast.CallStmt:
		if call, ok := x.X.(*gast.Call); ok && call.Recv == nil && (call.Name == "Forget" || call.Name == "Changed") {
			// Forget takes a snippet: when no variable is spelled exactly like it, the engine forgets every
			// expression whose text contains it (Forget("F.S") also reaches F.Sub.X). Any snippet
			// contained in the call's text is therefore an invalidation event for the call.
			name := call.Args[0].(*gast.Lit).S
			if name != "" && strings.Contains(text, name) {
				return true
			}
		}
	}
	return false
}

// c13Check validates the probe invocations of a run against the memo discipline.
func c13Check(c *val.Case, rep *val.Report) (violations []string, multiDemand bool) {
	byName := map[string]*gast.Rule{}
	for _, r := range c.Rules {
		byName[r.Name] = r
	}
	credit := map[int64]bool{}
	demand := map[int64]int{}
	for i := range c13Calls {
		credit[c13Calls[i].ID] = true
	}
	// walk the trace: phases and firings
	var inFiring *gast.Rule
	var firingCalls map[int64]int
	flushFiring := func() {
		if inFiring == nil {
			return
		}
		for id, n := range firingCalls {
			cc := c13ByID(id)
			if cc == nil {
				continue
			}
			text := gast.CompactText(cc.Mk())
			remaining := n
			for _, s := range inFiring.Then {
				if c13Mentions(s, text) && credit[id] && remaining > 0 {
					remaining--
					credit[id] = false
				}
				if c13IsEvent(s, cc, text) {
					credit[id] = true
				}
			}
			if remaining > 0 {
				violations = append(violations, fmt.Sprintf("%s was invoked %d time(s) more than the invalidation events in the actions of rule %s allow (invocations in this firing: %d)", text, remaining, inFiring.Name, n))
			}
		}
		// events of calls that were not invoked in this firing still re-arm them
		for i := range c13Calls {
			cc := &c13Calls[i]
			if _, done := firingCalls[cc.ID]; done {
				continue
			}
			text := gast.CompactText(cc.Mk())
			for _, s := range inFiring.Then {
				if c13IsEvent(s, cc, text) {
					credit[cc.ID] = true
				}
			}
		}
		inFiring = nil
	}
	for _, ev := range rep.Events {
		switch ev.Kind {
		case obs.EvBegin:
			flushFiring()
		case obs.EvExec:
			inFiring = byName[ev.Rule]
			firingCalls = map[int64]int{}
		case obs.EvProbe:
			if inFiring != nil {
				firingCalls[ev.ProbeID]++
				demand[ev.ProbeID]++
				continue
			}
			demand[ev.ProbeID]++
			if !credit[ev.ProbeID] {
				cc := c13ByID(ev.ProbeID)
				text := fmt.Sprint(ev.ProbeID)
				if cc != nil {
					text = gast.CompactText(cc.Mk())
				}
				violations = append(violations, fmt.Sprintf("%s was invoked again in an evaluation phase although no invalidation event occurred since its last evaluation", text))
			}
			credit[ev.ProbeID] = false
		}
	}
	flushFiring()
	for _, n := range demand {
		if n >= 2 {
			multiDemand = true
		}
	}
	return violations, multiDemand
}

type c13Gen struct {
	c     *val.Case
	calls []*c13Call
}

func genC13(rt *rapid.T) *c13Gen {
	// choose 1-3 counted call texts
	n := rapid.IntRange(1, 3).Draw(rt, "ncalls")
	perm := rapid.Permutation(indexes(len(c13Calls))).Draw(rt, "calls")
	var calls []*c13Call
	for _, i := range perm[:n] {
		calls = append(calls, &c13Calls[i])
	}
	k := rapid.IntRange(1, 6).Draw(rt, "nrules")
	names := gen.RuleNames(rt, k, "")
	var rules []*gast.Rule
	for i := 0; i < k; i++ {
		r := &gast.Rule{Name: names[i]}
		if rapid.Bool().Draw(rt, "has_sal") {
			s := int64(rapid.IntRange(-3, 3).Draw(rt, "sal"))
			r.Salience = &s
		}
		r.When = c13Cond(rt, calls)
		na := rapid.IntRange(1, 4).Draw(rt, "nactions")
		for a := 0; a < na; a++ {
			r.Then = append(r.Then, c13Action(rt, calls, r.Name))
		}
		rules = append(rules, r)
	}
	if rapid.IntRange(0, 3).Draw(rt, "panicking_condition") == 0 {
		// a rule whose condition panics in every cycle (recovered by the engine: the rule is simply not a
		// candidate); nothing the other rules remember is touched by that
		bad := []gast.Expr{
			&gast.Bin{Op: gast.OpGT, L: &gast.Call{Recv: gast.P("F"), Name: "Boom"}, R: gast.I(0)},
			&gast.Bin{Op: gast.OpGT, L: &gast.Bin{Op: gast.OpMod, L: gast.I(7), R: gast.P("F", "U8")}, R: gast.I(0)},
			&gast.Bin{Op: gast.OpGT, L: &gast.Member{X: &gast.Call{Recv: gast.P("F"), Name: "NilSub"}, Field: "X"}, R: gast.I(0)},
		}[rapid.IntRange(0, 2).Draw(rt, "panicking_kind")]
		pr := &gast.Rule{Name: "Panicky", When: bad, Then: []gast.Stmt{&gast.Assign{LHS: gast.P("F", "I16"), Op: "=", RHS: gast.I(1)}}}
		sp := int64(rapid.IntRange(-3, 3).Draw(rt, "panicking_salience"))
		pr.Salience = &sp
		rules = append(rules, pr)
		k++
	}
	c := &val.Case{Rules: rules, SoloTexts: map[string]string{}, Listeners: 1}
	var b strings.Builder
	for _, r := range rules {
		p := gast.NewPrinter()
		p.C = rchooser{rt}
		p.Vary = true
		p.Rule(r)
		b.WriteString(p.String() + "\n")
		c.SoloTexts[r.Name] = gast.RuleString(r)
	}
	c.Text = b.String()
	if k >= 2 && rapid.IntRange(0, 2).Draw(rt, "several_resources") == 0 {
		// two resources, and between them one that mentions the same calls and is rejected as a whole
		cut := rapid.IntRange(1, k-1).Draw(rt, "resource_cut")
		var t1, t2 strings.Builder
		for i, r := range rules {
			if i < cut {
				t1.WriteString(gast.RuleString(r) + "\n")
			} else {
				t2.WriteString(gast.RuleString(r) + "\n")
			}
		}
		c.Texts = []string{t1.String(), t2.String()}
		if rapid.Bool().Draw(rt, "rejected_between") {
			src := rules[rapid.IntRange(0, cut-1).Draw(rt, "rejected_source")]
			cp := &gast.Rule{Name: "ZRejected", When: src.When, Then: src.Then}
			tail := "rule ZBroken { when F.I32 > then }\n"
			if rapid.Bool().Draw(rt, "rejected_duplicate") {
				tail = gast.RuleString(src) + "\n"
			}
			c.Rejected = []string{gast.RuleString(cp) + "\n" + tail}
		}
	}
	// a third of the knowledge bases are stored and loaded before they are instantiated
	c.ViaGRB = rapid.IntRange(0, 2).Draw(rt, "via_grb") == 0
	st := gen.SeededState(rapid.Uint64Range(0, 1000).Draw(rt, "seed"), gen.StateCfg{D: gen.Small})
	f := st.Go["F"]
	f.I64 = int64(rapid.IntRange(0, 6).Draw(rt, "I64"))
	f.I32 = int32(rapid.IntRange(0, 6).Draw(rt, "I32"))
	f.Sub.X = int64(rapid.IntRange(0, 6).Draw(rt, "SubX"))
	f.S = rapid.SampledFrom([]string{"", "a", "abc"}).Draw(rt, "S")
	c.Init = st
	c.MaxCycle = uint64(rapid.IntRange(1, 30).Draw(rt, "maxcycle"))
	return &c13Gen{c: c, calls: calls}
}

func c13Run(c *val.Case) (*val.Report, []string, bool, error) {
	prep, err := val.Prepare(c)
	if err != nil {
		return nil, nil, false, err
	}
	var rep *val.Report
	var multi bool
	for i := 0; i < repsFor(); i++ {
		rep = val.Run(c, prep)
		if rep.Harness != "" {
			return rep, nil, false, fmt.Errorf("%s", rep.Harness)
		}
		v, m := c13Check(c, rep)
		multi = multi || m
		if len(v) > 0 {
			sawFailure = true
			return rep, v, multi, nil
		}
	}
	return rep, nil, multi, nil
}

func TestC13(t *testing.T) {
	col := stats.New("C13", "1-3 counted probe calls (F.P(id), F.PB(id), F.PV(id, <variable or sum of variables>), F.PS(id, <string variable>); one id per call text) placed with identical text in the conditions, right-hand sides and call statements of 1-6 rules inside varying surrounding expressions, runs of 1-30 cycles; invalidation events are generated explicitly (assignments to a variable occurring in the call's arguments, Forget/Changed naming the call text or such a variable) next to non-events (assignments to unrelated or similarly named locations, Forget of unrelated names). Oracle: the exact memo discipline as an automaton per call text - an invocation is allowed only if an invalidation event (or the start of Execute) happened since the previous invocation; within a firing the statement order of the fired rule gives the interleaving. Upper bound only (short-circuiting may evaluate less). Non-trivial: some call text was demanded at least twice in the run. Distinct by rule text + state.",
		"plain field reads cannot be counted without instrumenting reflect; accessor-style probe methods stand in for them",
		"Forget/Changed take a snippet: every snippet contained in a call's text counts as an invalidation event for it (the engine matches by substring when no variable is spelled exactly like the snippet); non-event names are chosen so that they are not substrings of any counted call's text")
	defer col.Flush()
	check(t, 0, budget(6000, 80000), func(rt *rapid.T) {
		g := genC13(rt)
		rep, v, multi, err := c13Run(g.c)
		if err != nil {
			rt.Fatalf("harness: %v\n%s", err, g.c.Text)
		}
		shared := 0
		for _, cc := range g.calls {
			text := gast.CompactText(cc.Mk())
			n := 0
			for _, r := range g.c.Rules {
				m := false
				gast.Walk(r.When, func(x gast.Expr) {
					if c, ok := x.(*gast.Call); ok && c.Recv != nil && gast.CompactText(c) == text {
						m = true
					}
				})
				for _, s := range r.Then {
					if c13Mentions(s, text) {
						m = true
					}
				}
				if m {
					n++
				}
			}
			if n >= 2 {
				shared++
			}
		}
		nt := multi
		labels := []string{"ended:" + rep.EndedBy, "firings:" + bucket(rep.Firings), fmt.Sprintf("calls:%d", len(g.calls)), fmt.Sprintf("probe_invocations:%s", bucket(len(rep.ProbeCalls)))}
		if shared > 0 {
			labels = append(labels, "call_shared_by_2+_rules")
		}
		col.Case(g.c.Text+fmt.Sprint(g.c.Init.Go["F"].I64, g.c.MaxCycle), nt, labels...)
		if col.WantSample(nt) {
			col.Sample(sampleOf(g.c, rep), nt)
		}
		if len(v) > 0 {
			reportViolation(rt, col, "C13", g.c, rep, v)
		}
	})
}

func init() {
	replayers["C13"] = func(raw json.RawMessage) error {
		var r rsCase
		if err := json.Unmarshal(raw, &r); err != nil {
			return err
		}
		c, err := fromRSCase(&r)
		if err != nil {
			return err
		}
		sawFailure = true
		_, v, _, err := c13Run(c)
		if err != nil {
			return err
		}
		if len(v) > 0 {
			return fmt.Errorf("%s", strings.Join(v, "; "))
		}
		return nil
	}
	_ = facts.FailNone
}
