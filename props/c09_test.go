package props

import (
	"bytes"
	"encoding/json"
	"fmt"
	"runtime"
	"strings"
	"sync"
	"testing"
	"time"

	"github.com/hyperjumptech/grule-rule-engine/ast"
	"pgregory.net/rapid"

	"verif/internal/facts"
	"verif/internal/gast"
	"verif/internal/gen"
	"verif/internal/obs"
	"verif/internal/stats"
	"verif/internal/val"
)

// C09: instances are faithful copies, mutually isolated, and safe to run concurrently.

type c09Case struct {
	Run      *rsCase        `json:"run"`
	States   []*facts.State `json:"facts_per_instance"`
	Source   string         `json:"library_source"` // "built", "grb", "removed"
	PauseAt  int            `json:"pause_at_event"`
	RemoveIn string         `json:"rule_removed_in_other_instance"`
	// LibRemove: at the end the named rule is removed from the library itself (the blueprint), and an
	// instance created after that must exist and behave like the remaining rules
	LibRemove string `json:"rule_removed_from_library_afterwards,omitempty"`
}

// c09Lib returns the library to instantiate from (built, loaded from a binary image, or with a rule removed).
func c09Lib(prep *val.Prepared, source string, c *val.Case) (*ast.KnowledgeLibrary, []string, error) {
	switch source {
	case "grb":
		var buf bytes.Buffer
		if err := prep.Lib.StoreKnowledgeBaseToWriter(&buf, obs.KBName, obs.KBVersion); err != nil {
			return nil, nil, err
		}
		l2 := ast.NewKnowledgeLibrary()
		if _, err := l2.LoadKnowledgeBaseFromReader(bytes.NewReader(buf.Bytes()), true); err != nil {
			return nil, nil, err
		}
		return l2, nil, nil
	}
	return prep.Lib, nil, nil
}

func c09Run(cc *c09Case) ([]string, map[string]interface{}, error) {
	c, err := fromRSCase(cc.Run)
	if err != nil {
		return nil, nil, err
	}
	prep, err := val.Prepare(c)
	if err != nil {
		return nil, nil, err
	}
	lib, _, err := c09Lib(prep, cc.Source, c)
	if err != nil {
		return []string{fmt.Sprintf("store/load of a built knowledge base failed: %v", err)}, nil, nil
	}
	prepUse := *prep
	prepUse.Lib = lib
	var v []string
	info := map[string]interface{}{}
	k := len(cc.States)
	// a request for a knowledge base the library does not hold is answered with an error, and has no effect on
	// what follows
	if _, merr := lib.NewKnowledgeBaseInstance("NoSuchKnowledgeBase", "0.0.0"); merr == nil {
		v = append(v, "NewKnowledgeBaseInstance for a name the library does not hold returned no error")
	}
	// (a) instance creation succeeds, repeatedly
	kbs := make([]*ast.KnowledgeBase, k)
	for i := range kbs {
		kb, ierr := obs.InstanceOf(lib, obs.KBName, obs.KBVersion)
		if ierr != nil {
			return []string{fmt.Sprintf("NewKnowledgeBaseInstance failed for a successfully %s knowledge base: %v", cc.Source, ierr)}, info, nil
		}
		kbs[i] = kb
	}
	bp := lib.GetKnowledgeBase(obs.KBName, obs.KBVersion)
	// (c) state-hash isolation
	hBP := obs.DeepHash(bp)
	hs := make([]uint64, k)
	for i, kb := range kbs {
		hs[i] = obs.DeepHash(kb)
	}
	// (b) instance 0 runs and validates; in the middle of its run (d) instance 1 runs fully and gets a rule removed
	c0 := *c
	c0.Init = cc.States[0]
	var solo *val.Report
	if k >= 2 {
		soloCase := c0
		solo = val.Run(&soloCase, &prepUse)
	}
	var inner *val.Report
	if k >= 2 && cc.PauseAt > 0 {
		c0.OnEvent = func(i int, ev *obs.Event) {
			if i != cc.PauseAt || inner != nil {
				return
			}
			c1 := *c
			c1.Init = cc.States[1]
			inner = val.RunOn(&c1, &prepUse, kbs[1])
			if cc.RemoveIn != "" {
				kbs[1].RemoveRuleEntry(cc.RemoveIn)
				kbs[1].RetractRule(c.Rules[0].Name)
			}
		}
	}
	rep0 := val.RunOn(&c0, &prepUse, kbs[0])
	if rep0.Excluded == "" {
		for _, m := range clauseViolations(rep0) {
			v = append(v, "instance 0: "+m)
		}
	}
	if inner != nil && inner.Excluded == "" {
		for _, m := range clauseViolations(inner) {
			v = append(v, "instance 1 (run while instance 0 was paused): "+m)
		}
	}
	if solo != nil && solo.Excluded == "" && rep0.Excluded == "" && allDistinctSalience(c.Rules) {
		if strings.Join(solo.Fired, ",") != strings.Join(rep0.Fired, ",") {
			v = append(v, fmt.Sprintf("instance 0 fired %v when another instance ran in between, %v when run alone", rep0.Fired, solo.Fired))
		}
		if d := facts.Diff(solo.Final, rep0.Final); len(d) > 0 {
			if len(d) > 4 {
				d = d[:4]
			}
			v = append(v, "instance 0's final facts depend on the interleaved run of another instance: "+strings.Join(d, "; "))
		}
	}
	// instance 0 retracts and removes rules
	kbs[0].RetractRule(c.Rules[len(c.Rules)-1].Name)
	kbs[0].RemoveRuleEntry(c.Rules[0].Name)
	if h := obs.DeepHash(bp); h != hBP {
		v = append(v, "the library's blueprint changed while an instance executed, retracted and removed rules (state hash differs)")
	}
	for i := 1; i < k; i++ {
		if inner != nil && i == 1 {
			continue // instance 1 was used itself
		}
		if h := obs.DeepHash(kbs[i]); h != hs[i] {
			v = append(v, fmt.Sprintf("instance %d changed while another instance executed, retracted and removed rules (state hash differs)", i))
		}
	}
	// the untouched instances still behave like the library's rules
	for i := 2; i < k; i++ {
		ci := *c
		ci.Init = cc.States[i]
		rep := val.RunOn(&ci, &prepUse, kbs[i])
		if rep.Excluded == "" {
			for _, m := range clauseViolations(rep) {
				v = append(v, fmt.Sprintf("instance %d: %s", i, m))
			}
		}
	}
	// an instance created after all that is complete again
	kbNew, ierr := obs.InstanceOf(lib, obs.KBName, obs.KBVersion)
	if ierr != nil {
		v = append(v, fmt.Sprintf("NewKnowledgeBaseInstance failed after other instances were used: %v", ierr))
	} else {
		cn := *c
		cn.Init = cc.States[0]
		rep := val.RunOn(&cn, &prepUse, kbNew)
		if rep.Excluded == "" {
			for _, m := range clauseViolations(rep) {
				v = append(v, "instance created afterwards: "+m)
			}
			if solo != nil && solo.Excluded == "" && allDistinctSalience(c.Rules) && strings.Join(solo.Fired, ",") != strings.Join(rep.Fired, ",") {
				v = append(v, fmt.Sprintf("an instance created after others removed rules fires %v, expected %v", rep.Fired, solo.Fired))
			}
		}
	}
	// what FetchMatchingRules returned for one instance belongs to the caller: later calls on other instances
	// (matching or executing) do not change it
	if kbF, ferr := obs.InstanceOf(lib, obs.KBName, obs.KBVersion); ferr == nil {
		sf := cc.States[0].Copy()
		if dcf, derr := obs.NewDataContext(sf); derr == nil {
			raw, rerr, pan := obs.FetchRaw(kbF, dcf, false)
			if rerr == nil && pan == nil && len(raw) > 0 {
				var then []string
				for _, e := range raw {
					then = append(then, e.RuleName)
				}
				for _, st := range cc.States {
					if other, oerr := obs.InstanceOf(lib, obs.KBName, obs.KBVersion); oerr == nil {
						so := st.Copy()
						if dco, derr2 := obs.NewDataContext(so); derr2 == nil {
							_, _, _ = obs.FetchRaw(other, dco, false)
							_ = obs.Execute(other, dco, obs.RunOpts{MaxCycle: 3})
						}
					}
				}
				var now []string
				for _, e := range raw {
					if e == nil {
						now = append(now, "<nil>")
					} else {
						now = append(now, e.RuleName)
					}
				}
				if strings.Join(then, ",") != strings.Join(now, ",") {
					v = append(v, fmt.Sprintf("the list FetchMatchingRules returned for one instance held %v; after calls on other instances the same slice holds %v", then, now))
				}
				for _, e := range raw {
					if e != nil && kbF.RuleEntries[e.RuleName] != e {
						v = append(v, fmt.Sprintf("FetchMatchingRules returned an entry for %s that is not this instance's own rule entry", e.RuleName))
						break
					}
				}
			}
		}
	}
	// a data context is not tied to an instance: one that was first used with one instance (for a single cycle)
	// is then executed with another instance, which must validate on whatever facts that left - its own
	// Retract / Forget / Complete calls included
	for _, st := range cc.States[:min(2, len(cc.States))] {
		kbA, aerr := obs.InstanceOf(lib, obs.KBName, obs.KBVersion)
		kbB, berr := obs.InstanceOf(lib, obs.KBName, obs.KBVersion)
		if aerr != nil || berr != nil {
			break
		}
		cx := *c
		cx.Init = st
		cx.PriorSameDC, cx.PriorOtherInstance, cx.PriorKB, cx.PriorMaxCycle = true, true, kbA, 1
		rep := val.RunOn(&cx, &prepUse, kbB)
		if rep.Excluded == "" {
			for _, m := range clauseViolations(rep) {
				v = append(v, "instance B executed on a data context that instance A had used for one cycle: "+m)
			}
		}
	}
	// the library itself loses a rule: instances can still be created, and they are the remaining rules
	if cc.LibRemove != "" {
		lib.RemoveRuleEntry(cc.LibRemove, obs.KBName, obs.KBVersion)
		kbR, rerr := obs.InstanceOf(lib, obs.KBName, obs.KBVersion)
		if rerr != nil {
			v = append(v, fmt.Sprintf("NewKnowledgeBaseInstance failed after rule %s was removed from the library: %v", cc.LibRemove, rerr))
		} else {
			cr := *c
			cr.Rules = nil
			prepR := prepUse
			prepR.ByName = map[string]*gast.Rule{}
			for _, r := range c.Rules {
				if r.Name != cc.LibRemove {
					cr.Rules = append(cr.Rules, r)
					prepR.ByName[r.Name] = r
				}
			}
			cr.Init = cc.States[0]
			rep := val.RunOn(&cr, &prepR, kbR)
			if rep.Excluded == "" {
				for _, m := range clauseViolations(rep) {
					v = append(v, fmt.Sprintf("instance created after %s was removed from the library: %s", cc.LibRemove, m))
				}
			}
		}
	}
	info["instances"] = k
	info["fired_instance0"] = rep0.Fired
	return v, info, nil
}

func allDistinctSalience(rs []*gast.Rule) bool {
	seen := map[int64]bool{}
	for _, r := range rs {
		if seen[r.SalienceValue()] {
			return false
		}
		seen[r.SalienceValue()] = true
	}
	return true
}

func c09Gen(rt *rapid.T) (*c09Case, *gen.RuleSet) {
	rc := fullRuleCfg()
	rc.DistinctSalience = true
	rc.MinRules, rc.MaxRules = 2, 5
	cfg := rsGenCfg{Rules: rc, Vary: true}
	c, rs := genRSCase(rt, cfg)
	k := rapid.IntRange(1, 5).Draw(rt, "instances")
	cc := &c09Case{Run: toRSCase(c), Source: rapid.SampledFrom([]string{"built", "built", "grb"}).Draw(rt, "source")}
	cc.States = append(cc.States, c.Init)
	for i := 1; i < k; i++ {
		cc.States = append(cc.States, c08GenState(rt, rs, rc.State))
	}
	for _, s := range cc.States {
		if rc.Forget {
			_ = s
		}
	}
	if k >= 2 {
		cc.PauseAt = rapid.IntRange(0, 12).Draw(rt, "pause_at")
		if rapid.Bool().Draw(rt, "remove_in_other") {
			cc.RemoveIn = c.Rules[rapid.IntRange(0, len(c.Rules)-1).Draw(rt, "removed_rule")].Name
		}
	}
	if rapid.IntRange(0, 2).Draw(rt, "remove_from_library") == 0 {
		cc.LibRemove = c.Rules[rapid.IntRange(0, len(c.Rules)-1).Draw(rt, "library_removed_rule")].Name
	}
	return cc, rs
}

func TestC09(t *testing.T) {
	col := stats.New("C09", "generated rule sets (as C01, pairwise distinct saliences; built from text or loaded from a binary image), k = 1..5 instances with different facts per instance. (a) every NewKnowledgeBaseInstance call succeeds (before use, after other instances ran/removed rules, and - in a third of the cases - after a rule was removed from the library itself, where the new instance must validate as the remaining rules); (b) every instance's run is validated against fresh single-rule truth and the reference replay; (c) state-hash isolation: a deep hash of everything reachable from a *KnowledgeBase by a generic reflection walk (all engine structs behind pointers/slices/maps, exported or not, incl. memo flags and remembered values; foreign objects by identity) is taken for the blueprint and the other instances before and after one instance executes, retracts and removes rules, and must not change; (d') a data context first used with one instance is then executed with another one; (d) interleaving: instance 0 is paused inside its j-th listener event while instance 1 runs to its end and has a rule removed and one retracted, then resumes - its trace must validate and equal its stand-alone run; (e) in the race-detector build G in {2,4,16,64} goroutines x GOMAXPROCS in {1,2,16} concurrently create instances from one library and execute them on their own facts: each result equals the sequential one and the detector reports no race. Non-trivial: at least 2 instances with different facts. Distinct by rule text + facts + interleaving point.",
		"(e) samples schedules: the harness does not own the Go scheduler; the race detector is schedule-insensitive only for accesses that were executed")
	defer col.Flush()
	check(t, 0, budget(1200, 20000), func(rt *rapid.T) {
		cc, rs := c09Gen(rt)
		var v []string
		var info map[string]interface{}
		var err error
		for i := 0; i < repsFor()/2+1; i++ {
			// (under a watchdog: an instance request that never returns - a lock that is not released - is a
			// violation, not a wedged worker)
			type outcome struct {
				v    []string
				info map[string]interface{}
				err  error
			}
			done := make(chan outcome, 1)
			go func() {
				v, info, err := c09Run(cc)
				done <- outcome{v, info, err}
			}()
			select {
			case o := <-done:
				v, info, err = o.v, o.info, o.err
			case <-time.After(30 * time.Second):
				msg := "creating and running instances did not finish within 30 s (a call on the library or an instance never returned)\n--- rules ---\n" + cc.Run.Text
				path := col.Violation("C09", "C09/did_not_return", msg, cc)
				rt.Fatalf("C09 violated: %s (replay %s)", msg, path)
			}
			if err != nil {
				rt.Fatalf("harness: %v\n%s", err, cc.Run.Text)
			}
			if len(v) > 0 {
				sawFailure = true
				break
			}
		}
		nt := len(cc.States) >= 2
		labels := append(featLabels(rs), fmt.Sprintf("instances:%d", len(cc.States)), "source:"+cc.Source)
		if cc.PauseAt > 0 && len(cc.States) >= 2 {
			labels = append(labels, "interleaved")
		}
		if cc.RemoveIn != "" {
			labels = append(labels, "rule_removed_in_other_instance")
		}
		if cc.LibRemove != "" {
			labels = append(labels, "rule_removed_from_library_then_new_instance")
		}
		col.Case(fmt.Sprint(cc.Run.Text, cc.PauseAt, cc.RemoveIn, len(cc.States), cc.Source, cc.States[0].Go["F"].I64), nt, labels...)
		if col.WantSample(nt) {
			col.Sample(map[string]interface{}{"rules": cc.Run.Text, "instances": len(cc.States), "source": cc.Source, "pause_at_event": cc.PauseAt, "result": info}, nt)
		}
		if len(v) > 0 {
			msg := strings.Join(v, "\n") + "\n--- rules ---\n" + cc.Run.Text
			path := col.Violation("C09", "C09/"+firstWords(v[0]), msg, cc)
			rt.Fatalf("C09 violated: %s (replay %s)", msg, path)
		}
	})
}

// TestC09Race runs in the -race build: concurrent creation and execution.
func TestC09Race(t *testing.T) {
	col := stats.New("C09", "", "race-detector build: concurrent instance creation and execution")
	defer col.Flush()
	defer runtime.GOMAXPROCS(runtime.GOMAXPROCS(0))
	check(t, 5, budget(24, 160), func(rt *rapid.T) {
		rc := fullRuleCfg()
		rc.DistinctSalience = true
		rc.MinRules, rc.MaxRules = 2, 5
		cfg := rsGenCfg{Rules: rc, Vary: false}
		c, rs := genRSCase(rt, cfg)
		prep, err := val.Prepare(c)
		if err != nil {
			rt.Fatalf("harness: %v", err)
		}
		lib := prep.Lib
		if rapid.Bool().Draw(rt, "grb") {
			l2, _, lerr := c09Lib(prep, "grb", c)
			if lerr == nil {
				lib = l2
			}
		}
		G := rapid.SampledFrom([]int{2, 4, 16, 64}).Draw(rt, "goroutines")
		procs := rapid.SampledFrom([]int{1, 2, 16}).Draw(rt, "gomaxprocs")
		nStates := 4
		states := make([]*facts.State, nStates)
		expected := make([]*facts.State, nStates)
		expErr := make([]string, nStates)
		for i := range states {
			states[i] = c08GenState(rt, rs, rc.State)
			// sequential reference result
			kb, ierr := obs.InstanceOf(lib, obs.KBName, obs.KBVersion)
			if ierr != nil {
				rt.Fatalf("harness: %v", ierr)
			}
			live := states[i].Copy()
			dc, _ := obs.NewDataContext(live)
			res := obs.Execute(kb, dc, obs.RunOpts{MaxCycle: c.MaxCycle})
			expected[i] = obs.Capture(live, dc)
			expErr[i] = errClass(res.Err)
		}
		runtime.GOMAXPROCS(procs)
		var wg sync.WaitGroup
		var mu sync.Mutex
		var v []string
		start := make(chan struct{})
		for g := 0; g < G; g++ {
			wg.Add(1)
			go func(g int) {
				defer wg.Done()
				<-start
				for it := 0; it < 3; it++ {
					i := (g + it) % nStates
					kb, ierr := obs.InstanceOf(lib, obs.KBName, obs.KBVersion)
					if ierr != nil {
						mu.Lock()
						v = append(v, fmt.Sprintf("goroutine %d: NewKnowledgeBaseInstance failed: %v", g, ierr))
						mu.Unlock()
						return
					}
					live := states[i].Copy()
					dc, _ := obs.NewDataContext(live)
					res := obs.Execute(kb, dc, obs.RunOpts{MaxCycle: c.MaxCycle})
					got := obs.Capture(live, dc)
					if res.Panicked != nil {
						mu.Lock()
						v = append(v, fmt.Sprintf("goroutine %d: panic %v", g, res.Panicked))
						mu.Unlock()
						return
					}
					if errClass(res.Err) != expErr[i] {
						mu.Lock()
						v = append(v, fmt.Sprintf("goroutine %d: result class %s, sequential run %s", g, errClass(res.Err), expErr[i]))
						mu.Unlock()
					}
					if d := facts.Diff(expected[i], got); len(d) > 0 {
						if len(d) > 3 {
							d = d[:3]
						}
						mu.Lock()
						v = append(v, fmt.Sprintf("goroutine %d: final facts differ from the sequential run: %s", g, strings.Join(d, "; ")))
						mu.Unlock()
					}
				}
			}(g)
		}
		close(start)
		wg.Wait()
		col.Case(fmt.Sprint(c.Text, G, procs), true, fmt.Sprintf("race:goroutines:%d", G), fmt.Sprintf("race:gomaxprocs:%d", procs))
		col.AddExtra("concurrent_executions", G*3)
		if len(v) > 0 {
			msg := strings.Join(v, "\n") + "\n--- rules ---\n" + c.Text
			path := col.Violation("C09", "C09/concurrent", msg, map[string]interface{}{"run": toRSCase(c), "goroutines": G, "gomaxprocs": procs, "note": "re-run ./check C09 quick (race build)"})
			rt.Fatalf("C09 violated (concurrent): %s (replay %s)", msg, path)
		}
	})
}

func errClass(err error) string {
	switch {
	case err == nil:
		return "nil"
	case val.IsCycleLimitErr(err):
		return "cyclelimit"
	}
	return "error"
}

func init() {
	replayers["C09"] = func(raw json.RawMessage) error {
		var cc c09Case
		if err := json.Unmarshal(raw, &cc); err != nil {
			return err
		}
		if cc.Run == nil || len(cc.States) == 0 {
			return fmt.Errorf("concurrent case: re-run ./check C09 quick")
		}
		for i := 0; i < 24; i++ {
			v, _, err := c09Run(&cc)
			if err != nil {
				return err
			}
			if len(v) > 0 {
				return fmt.Errorf("%s", strings.Join(v, "; "))
			}
		}
		return nil
	}
}
