package props

import (
	"encoding/json"
	"fmt"
	"math"
	"testing"
	"time"
	"verif/internal/gast"

	"pgregory.net/rapid"

	"verif/internal/stats"
	"verif/internal/val"
)

// C06: every run terminates within the cycle budget and reports itself faithfully.

func TestC06(t *testing.T) {
	col := stats.New("C06", "terminating and deliberately non-terminating rule sets (1-6 rules, Retract, Complete); the natural run length k is measured first with a large budget, then MaxCycle is drawn from {0, 1, 2, k-1, k, k+1, 2k} and 1-3 recording listeners are registered; checked: cycles numbered consecutively from 1, every active rule evaluated exactly once per completed cycle with its fresh candidate status, at most one execution per cycle and only of a rule reported as candidate in that cycle, number of firings <= MaxCycle, cycle-limit error exactly when a satisfied rule exists after MaxCycle firings, nil at quiescence or after Complete, all listeners see identical sequences, and the same call without listeners returns the same class of result and final facts. A wall-clock guard of 20 s per run only detects hangs. A quarter of the cases run on an instance that served an earlier call (mostly ended at its own cycle limit of 1, 2 or 30, possibly after a Retract). Non-trivial: the run ended exactly at the budget boundary (firings == MaxCycle) or by Complete. Distinct by rule text + state + MaxCycle.",
		"the cycle-limit error is recognised structurally (non-nil, not a context error, names no failing rule), not by its wording")
	defer col.Flush()
	rc := fullRuleCfg()
	rc.Forget = false
	cfg := rsGenCfg{Rules: rc, Vary: true, GRB: true, MaxCycle: func(rt *rapid.T) uint64 { return 40 }}
	check(t, 0, budget(4000, 60000), func(rt *rapid.T) {
		c, rs := genRSCase(rt, cfg)
		maybeFailingConditions(rt, c, rs)
		maybeBareCondition(rt, c, rs)
		// a quarter of the cases run on an instance that served an earlier call, which mostly ended at its
		// own (small) cycle limit, possibly after a Retract: every call reports itself faithfully
		maybeUsedBefore(rt, c, rs, cfg.Rules.State)
		prep, err := val.Prepare(c)
		if err != nil {
			rt.Fatalf("harness: %v", err)
		}
		// (the measuring run is guarded like the validated ones below: a run that never returns is a violation)
		var probe *val.Report
		probed := make(chan *val.Report, 1)
		go func() { probed <- val.Run(c, prep) }()
		select {
		case probe = <-probed:
		case <-time.After(20 * time.Second):
			msg := fmt.Sprintf("Execute did not return within 20 s with MaxCycle=%d: the run neither reached quiescence nor the cycle limit\n--- rules ---\n%s", c.MaxCycle, gast.RulesString(c.Rules))
			path := col.Violation("C06", "C06/execute_did_not_return", msg, toRSCase(c))
			rt.Fatalf("C06 violated: %s (replay %s)", msg, path)
		}
		k := probe.Firings
		choice := rapid.IntRange(0, 8).Draw(rt, "budget_choice")
		var mc int
		var huge uint64
		switch choice {
		case 0:
			mc = 0
		case 1:
			mc = 1
		case 2:
			mc = 2
		case 3:
			mc = k - 1
		case 4:
			mc = k
		case 5:
			mc = k + 1
		case 6:
			mc = 2*k + 1
		default:
			// "no limit" settings: the largest values the field can hold
			huge = rapid.SampledFrom([]uint64{math.MaxUint64, math.MaxUint64 - 1, 1 << 63, 1<<63 - 1, 1 << 32, math.MaxInt32, math.MaxUint32}).Draw(rt, "huge_budget")
		}
		if mc < 0 {
			mc = 0
		}
		c.MaxCycle = uint64(mc)
		if huge != 0 {
			if probe.EndedBy != "quiescence" && probe.EndedBy != "complete" || !allDistinctSalience(c.Rules) || probe.Excluded != "" {
				// a run that does not end by itself cannot be given an unlimited budget; with salience ties
				// termination may depend on the engine's (random) tie-breaking
				huge = uint64(2*k + 1)
			}
			c.MaxCycle = huge
		}
		c.Listeners = rapid.IntRange(1, 3).Draw(rt, "listeners")
		start := time.Now()
		// the validated runs happen on a goroutine of their own: a run that never returns (a lock that is not
		// released, a loop that ignores the budget) is reported after 20 s instead of wedging the worker
		type outcome struct {
			rep *val.Report
			v   []string
		}
		done := make(chan outcome, 1)
		go func() {
			var rep *val.Report
			for i := 0; i < repsFor(); i++ {
				rep = val.Run(c, prep)
				if v := rep.Of("C06"); len(v) > 0 || rep.Harness != "" {
					done <- outcome{rep, v}
					return
				}
			}
			done <- outcome{rep, nil}
		}()
		var rep *val.Report
		var v []string
		select {
		case o := <-done:
			rep, v = o.rep, o.v
			if rep.Harness != "" && len(v) == 0 {
				rt.Fatalf("harness: %s\n%s", rep.Harness, c.Text)
			}
			if len(v) > 0 {
				sawFailure = true
			}
		case <-time.After(20 * time.Second):
			msg := fmt.Sprintf("Execute did not return within 20 s with MaxCycle=%d: the run neither reached quiescence nor the cycle limit\n--- rules ---\n%s", c.MaxCycle, gast.RulesString(c.Rules))
			path := col.Violation("C06", "C06/execute_did_not_return", msg, toRSCase(c))
			rt.Fatalf("C06 violated: %s (replay %s)", msg, path)
		}
		if d := time.Since(start); d > 20*time.Second {
			v = append(v, fmt.Sprintf("Execute needed %v (hang guard)", d))
		}
		// the same call without any listener: same class of result, same final facts when the
		// run is deterministic (single candidate per cycle throughout)
		nt := (rep.EndedBy == "cyclelimit") || (rep.Err == nil && uint64(rep.Firings) == c.MaxCycle) || rep.EndedBy == "complete"
		labels := append(featLabels(rs), "ended:"+rep.EndedBy, "firings:"+bucket(rep.Firings), fmt.Sprintf("listeners:%d", c.Listeners), fmt.Sprintf("budget_choice:%d", choice))
		if uint64(rep.Firings) == c.MaxCycle {
			labels = append(labels, "firings_equal_maxcycle")
		}
		if rep.Excluded != "" {
			labels = append(labels, "excluded_out_of_quantifier")
		}
		col.Case(c.Text+fmt.Sprint(c.Init.Go["F"].I64, c.MaxCycle), nt, labels...)
		if col.WantSample(nt) {
			col.Sample(sampleOf(c, rep), nt)
		}
		if len(v) > 0 {
			reportViolation(rt, col, "C06", c, rep, v)
		}
	})
}

func init() {
	registerRSReplayer("C06")
	inner := replayers["C06"]
	replayers["C06"] = func(raw json.RawMessage) error {
		done := make(chan error, 1)
		go func() { done <- inner(raw) }()
		select {
		case err := <-done:
			return err
		case <-time.After(30 * time.Second):
			return fmt.Errorf("Execute did not return within 30 s")
		}
	}
}
