package props

import (
	"encoding/json"
	"fmt"
	"math"
	"reflect"
	"sort"
	"strings"
	"testing"

	"pgregory.net/rapid"

	"verif/internal/facts"
	"verif/internal/gast"
	"verif/internal/gen"
	"verif/internal/obs"
	"verif/internal/ref"
	"verif/internal/stats"
)

// C07: a rule's meaning never depends on which other rules share its knowledge base.

type c07Rule struct {
	Name string
	Cond gast.Expr
	Val  gast.Expr
	How  string // how it differs from the base
}

func (r *c07Rule) rule() *gast.Rule {
	return &gast.Rule{Name: r.Name, When: r.Cond, Then: []gast.Stmt{
		&gast.Assign{LHS: gast.P("J", "out_"+r.Name), Op: "=", RHS: r.Val},
		&gast.CallStmt{X: &gast.Call{Name: "Retract", Args: []gast.Expr{gast.S(r.Name)}}},
	}}
}

// site is a place where a sibling may differ.
type site struct {
	kind  string
	apply func()
	// straddle, when set, moves a fact value between the two constants
	cmpPath *gast.Path
	a, b    float64
	isInt   bool
}

const injection = `")))),E(EA(A(C(string->"`

func collectSites(rt *rapid.T, root *gast.Expr) []site {
	var sites []site
	var walk func(pe *gast.Expr, parent gast.Expr)
	walk = func(pe *gast.Expr, parent gast.Expr) {
		e := *pe
		switch x := e.(type) {
		case *gast.Lit:
			switch x.T {
			case gast.TFloat:
				old := x.F
				var cp *gast.Path
				if b, ok := parent.(*gast.Bin); ok && gast.DocLevel(b.Op) == 3 {
					if p, ok := b.L.(*gast.Path); ok && b.R == e {
						cp = p
					}
					if p, ok := b.R.(*gast.Path); ok && b.L == e {
						cp = p
					}
				}
				sites = append(sites,
					site{kind: "float_7th_decimal", apply: func() { x.F = old + 1e-7 }, cmpPath: cp, a: old, b: old + 1e-7},
					site{kind: "float_tiny_relative", apply: func() { x.F = math.Nextafter(old, math.Inf(1)) }, cmpPath: cp, a: old, b: math.Nextafter(old, math.Inf(1))},
					site{kind: "float_sign", apply: func() { x.F = -old }},
					site{kind: "float_exponent", apply: func() { x.F = old * 10 }})
			case gast.TInt:
				old := x.I
				var cp *gast.Path
				if b, ok := parent.(*gast.Bin); ok && gast.DocLevel(b.Op) == 3 {
					if p, ok := b.L.(*gast.Path); ok && b.R == e {
						cp = p
					}
					if p, ok := b.R.(*gast.Path); ok && b.L == e {
						cp = p
					}
				}
				sites = append(sites,
					site{kind: "int_plus_one", apply: func() { x.I = old + 1 }, cmpPath: cp, a: float64(old), b: float64(old + 1), isInt: true},
					site{kind: "int_sign", apply: func() { x.I = -old }},
					site{kind: "int_vs_float", apply: func() { *pe = gast.F(float64(old)) }})
			case gast.TStr:
				old := x.S
				sites = append(sites,
					site{kind: "string_one_char", apply: func() { x.S = old + "x" }},
					site{kind: "string_quote", apply: func() { x.S = old + "\"" }},
					site{kind: "string_bracket", apply: func() { x.S = old + ")" }},
					site{kind: "string_arrow", apply: func() { x.S = old + "->" }},
					site{kind: "string_case", apply: func() { x.S = strings.ToUpper(old) + "A" }})
			case gast.TBool:
				sites = append(sites, site{kind: "bool_flip", apply: func() { x.B = !x.B }})
			}
		case *gast.Bin:
			swaps := map[gast.Op]gast.Op{gast.OpLT: gast.OpLTE, gast.OpLTE: gast.OpLT, gast.OpGT: gast.OpGTE, gast.OpGTE: gast.OpGT, gast.OpEq: gast.OpNEq, gast.OpNEq: gast.OpEq,
				gast.OpAdd: gast.OpSub, gast.OpSub: gast.OpAdd, gast.OpAnd: gast.OpOr, gast.OpOr: gast.OpAnd, gast.OpBAnd: gast.OpBOr, gast.OpBOr: gast.OpBAnd}
			if to, ok := swaps[x.Op]; ok {
				// + -> - is only type-safe for numbers
				if !(x.Op == gast.OpAdd && !numericOperands(x)) {
					sites = append(sites, site{kind: "operator", apply: func() { x.Op = to }})
				}
			}
			if x.Op == gast.OpSub || gast.DocLevel(x.Op) == 3 || x.Op == gast.OpAdd || x.Op == gast.OpMul {
				// + and * commute for numbers but + is concatenation as soon as a string is involved
				sites = append(sites, site{kind: "operand_order", apply: func() { x.L, x.R = x.R, x.L }})
			}
			if gast.DocLevel(x.Op) <= 3 && gast.DocLevel(x.Op) >= 1 {
				sites = append(sites, site{kind: "negation", apply: func() { *pe = &gast.Not{X: x} }})
			}
			walk(&x.L, x)
			walk(&x.R, x)
		case *gast.Not:
			sites = append(sites, site{kind: "negation_removed", apply: func() { *pe = x.X }})
			walk(&x.X, x)
		case *gast.Paren:
			walk(&x.X, x)
		case *gast.Path:
			for i := range x.Steps {
				s := &x.Steps[i]
				if l, ok := s.Index.(*gast.Lit); ok {
					switch l.T {
					case gast.TInt:
						old := l.I
						sites = append(sites, site{kind: "selector_index", apply: func() { l.I = (old + 1) % 2 }})
					case gast.TStr:
						old := l.S
						other := "a"
						if old == "a" {
							other = "b"
						}
						sites = append(sites, site{kind: "selector_key", apply: func() { l.S = other }})
					}
				}
				if s.Field == "Sub" {
					sites = append(sites, site{kind: "selector_field", apply: func() { s.Field = "Val" }})
				}
				if s.Field == "S" {
					sites = append(sites, site{kind: "selector_field", apply: func() { s.Field = "S2" }})
				}
			}
		case *gast.Call:
			if x.Recv != nil {
				walk(&x.Recv, x)
			}
			if len(x.Args) >= 2 && (x.Name == "Add64" || x.Name == "Sub3") {
				sites = append(sites, site{kind: "argument_order", apply: func() { x.Args[0], x.Args[1] = x.Args[1], x.Args[0] }})
			}
			if x.Name == "Cat" || x.Name == "In" {
				// snapshot injection: two string arguments versus one argument that spells their
				// separator in the snapshot syntax
				strs := 0
				for _, a := range x.Args {
					if l, ok := a.(*gast.Lit); ok && l.T == gast.TStr {
						strs++
					}
				}
				if strs == len(x.Args) && len(x.Args) >= 2 {
					sites = append(sites, site{kind: "snapshot_injection", apply: func() {
						a := x.Args[0].(*gast.Lit).S
						b := x.Args[1].(*gast.Lit).S
						rest := x.Args[2:]
						x.Args = append([]gast.Expr{gast.S(a + injection + b)}, rest...)
					}})
					sites = append(sites, site{kind: "argument_merge", apply: func() {
						a := x.Args[0].(*gast.Lit).S
						b := x.Args[1].(*gast.Lit).S
						rest := x.Args[2:]
						x.Args = append([]gast.Expr{gast.S(a + "," + b)}, rest...)
					}})
				}
			}
			if x.Name == "ToUpper" {
				sites = append(sites, site{kind: "function_name", apply: func() { x.Name = "ToLower" }})
			}
			if x.Name == "HasPrefix" {
				sites = append(sites, site{kind: "function_name", apply: func() { x.Name = "HasSuffix" }})
			}
			for i := range x.Args {
				walk(&x.Args[i], x)
			}
		case *gast.Member:
			if x.Field == "X" {
				sites = append(sites, site{kind: "member_of_call_result", apply: func() { x.Field = "Y" }})
			}
			if x.Field == "Y" {
				sites = append(sites, site{kind: "member_of_call_result", apply: func() { x.Field = "X" }})
			}
			walk(&x.X, x)
		case *gast.Index:
			walk(&x.X, x)
			walk(&x.Idx, x)
		}
	}
	walk(root, nil)
	return sites
}

func numericOperands(b *gast.Bin) bool {
	isStr := false
	gast.Walk(b, func(x gast.Expr) {
		if l, ok := x.(*gast.Lit); ok && l.T == gast.TStr {
			isStr = true
		}
		if c, ok := x.(*gast.Call); ok {
			switch c.Name {
			case "Cat", "ToUpper", "ToLower", "Trim", "Replace", "Repeat":
				isStr = true
			}
		}
		if p, ok := x.(*gast.Path); ok {
			t := gast.ExprString(p)
			if strings.Contains(t, ".S") || strings.Contains(t, "MS") || strings.Contains(t, "SArr") || strings.Contains(t, "MI") || strings.Contains(t, "TS") || strings.Contains(t, ".s") || strings.Contains(t, "k2") {
				isStr = true
			}
		}
	})
	return !isStr
}

type c07Case struct {
	Rules []interface{} `json:"rules"`
	Hows  []string      `json:"differences"`
	State *facts.State  `json:"state"`
	// State2: the facts of a second FetchMatchingRules / Execute call on the same instances
	State2 *facts.State `json:"state_of_second_call,omitempty"`
}

type c07Outcome struct {
	Match bool
	Sink  interface{}
	Has   bool
	Err   string
	// second call on the same instance, on other facts
	Match2 bool
	Sink2  interface{}
	Has2   bool
	Err2   string
}

func c07Observe(text string, names []string, st *facts.State, more ...*facts.State) (map[string]c07Outcome, error) {
	lib, err := obs.Build(text)
	if err != nil {
		return nil, fmt.Errorf("build: %v", describeBuildErr(err))
	}
	out := map[string]c07Outcome{}
	kb, err := obs.Instance(lib)
	if err != nil {
		return nil, fmt.Errorf("NewKnowledgeBaseInstance failed: %v", err)
	}
	s1 := st.Copy()
	dc, err := obs.NewDataContext(s1)
	if err != nil {
		return nil, err
	}
	matched, _, ferr, pan := obs.Fetch(kb, dc, false)
	if pan != nil {
		return nil, fmt.Errorf("FetchMatchingRules panicked: %v", pan)
	}
	if ferr != nil {
		return nil, fmt.Errorf("FetchMatchingRules: %v", ferr)
	}
	mset := map[string]bool{}
	for _, m := range matched {
		mset[m] = true
	}
	kb2, err := obs.Instance(lib)
	if err != nil {
		return nil, fmt.Errorf("NewKnowledgeBaseInstance failed: %v", err)
	}
	s2 := st.Copy()
	dc2, err := obs.NewDataContext(s2)
	if err != nil {
		return nil, err
	}
	res := obs.Execute(kb2, dc2, obs.RunOpts{MaxCycle: uint64(len(names) + 2)})
	if res.Panicked != nil {
		return nil, fmt.Errorf("Execute panicked: %v", res.Panicked)
	}
	final := obs.Capture(s2, dc2)
	j, _ := final.JSON["J"].(map[string]interface{})
	for _, n := range names {
		o := c07Outcome{Match: mset[n]}
		if res.Err != nil {
			o.Err = res.Err.Error()
		}
		if v, ok := j["out_"+n]; ok {
			o.Sink, o.Has = v, true
		}
		out[n] = o
	}
	if len(more) > 0 && more[0] != nil {
		// the same two instances serve a second call each, on other facts
		s3 := more[0].Copy()
		dc3, err := obs.NewDataContext(s3)
		if err != nil {
			return nil, err
		}
		matched2, _, ferr2, pan2 := obs.Fetch(kb, dc3, false)
		if pan2 != nil {
			return nil, fmt.Errorf("second FetchMatchingRules panicked: %v", pan2)
		}
		mset2 := map[string]bool{}
		for _, m := range matched2 {
			mset2[m] = true
		}
		s4 := more[0].Copy()
		dc4, err := obs.NewDataContext(s4)
		if err != nil {
			return nil, err
		}
		res2 := obs.Execute(kb2, dc4, obs.RunOpts{MaxCycle: uint64(len(names) + 2)})
		if res2.Panicked != nil {
			return nil, fmt.Errorf("second Execute panicked: %v", res2.Panicked)
		}
		j2, _ := obs.Capture(s4, dc4).JSON["J"].(map[string]interface{})
		for _, n := range names {
			o := out[n]
			o.Match2 = mset2[n]
			if ferr2 != nil {
				o.Err2 = "fetch: " + ferr2.Error()
			}
			if res2.Err != nil {
				o.Err2 += " execute: " + res2.Err.Error()
			}
			if v, ok := j2["out_"+n]; ok {
				o.Sink2, o.Has2 = v, true
			}
			out[n] = o
		}
	}
	return out, nil
}

// c07Exact makes an integer expression int64 (see gen: e + 0 is int64 for every integer kind).
func c07Exact(e gast.Expr, inf gen.IntInfo) gast.Expr {
	if inf.Exact {
		return e
	}
	return &gast.Paren{X: &gast.Bin{Op: gast.OpAdd, L: e, R: gast.I(0)}}
}

func sinkEqual(a, b c07Outcome) bool {
	if a.Match != b.Match || a.Has != b.Has {
		return false
	}
	if a.Has && len(facts.DiffTrees("sink", a.Sink, b.Sink)) != 0 {
		return false
	}
	// the second call (when there was one, and it went through in both cases)
	if a.Err2 != "" || b.Err2 != "" {
		return (a.Err2 == "") == (b.Err2 == "")
	}
	if a.Match2 != b.Match2 || a.Has2 != b.Has2 {
		return false
	}
	return !a.Has2 || len(facts.DiffTrees("sink", a.Sink2, b.Sink2)) == 0
}

func c07Run(rules []*c07Rule, st *facts.State, orders [][]int, more ...*facts.State) (msgs []string, differ bool, err error) {
	names := make([]string, len(rules))
	texts := make([]string, len(rules))
	for i, r := range rules {
		names[i] = r.Name
		texts[i] = gast.RuleString(r.rule())
	}
	// alone
	alone := map[string]c07Outcome{}
	for i, r := range rules {
		o, err := c07Observe(texts[i], []string{r.Name}, st, more...)
		if err != nil {
			return nil, false, fmt.Errorf("rule %s alone: %v", r.Name, err)
		}
		if o[r.Name].Err != "" {
			// a rule whose own action fails aborts every run it takes part in (C14): outside this property's domain
			return nil, false, fmt.Errorf("rule %s alone fails: %s", r.Name, o[r.Name].Err)
		}
		alone[r.Name] = o[r.Name]
	}
	// a rule whose own condition or action fails on the facts of the second call makes that call useless for
	// every rule it is built with: the second call is then left out of the comparison
	use2 := len(more) > 0 && more[0] != nil
	for _, r := range rules {
		if alone[r.Name].Err2 != "" {
			use2 = false
		}
	}
	strip := func(o c07Outcome) c07Outcome {
		if !use2 {
			o.Match2, o.Sink2, o.Has2, o.Err2 = false, nil, false, ""
		}
		return o
	}
	for n, o := range alone {
		alone[n] = strip(o)
	}
	// reference
	for _, r := range rules {
		env := ref.New(st.Copy())
		cv, cerr := env.Eval(r.Cond)
		if cerr != nil {
			if ref.IsUndefined(cerr) {
				return nil, false, nil
			}
			continue // conditions that fail are not part of this property's domain
		}
		if cv.K == ref.KBool && cv.B != alone[r.Name].Match {
			msgs = append(msgs, fmt.Sprintf("rule %s built alone: condition is %v, reference says %v (%s)", r.Name, alone[r.Name].Match, cv.B, r.How))
		}
	}
	for i := 1; i < len(rules); i++ {
		if !sinkEqual(alone[rules[0].Name], alone[rules[i].Name]) {
			differ = true
		}
	}
	for _, ord := range orders {
		var b strings.Builder
		for _, i := range ord {
			b.WriteString(texts[i] + "\n")
		}
		together, oerr := c07Observe(b.String(), names, st, more...)
		if oerr != nil {
			msgs = append(msgs, fmt.Sprintf("rules %v built together (order %v): %v", hows(rules), ord, oerr))
			continue
		}
		for _, r := range rules {
			a, t := alone[r.Name], strip(together[r.Name])
			if !sinkEqual(a, t) {
				msgs = append(msgs, fmt.Sprintf("rule %s (%s) behaves differently when built with its siblings in order %v: alone match=%v sink=%v, together match=%v sink=%v err=%s; second call on the same instance: alone match=%v sink=%v err=%q, together match=%v sink=%v err=%q",
					r.Name, r.How, ord, a.Match, a.Sink, t.Match, t.Sink, t.Err, a.Match2, a.Sink2, a.Err2, t.Match2, t.Sink2, t.Err2))
			}
		}
	}
	return msgs, differ, nil
}

func hows(rules []*c07Rule) []string {
	var out []string
	for _, r := range rules {
		out = append(out, r.How)
	}
	return out
}

func permutations(n int) [][]int {
	if n == 1 {
		return [][]int{{0}}
	}
	var out [][]int
	for _, p := range permutations(n - 1) {
		for i := 0; i <= len(p); i++ {
			q := append(append(append([]int{}, p[:i]...), n-1), p[i:]...)
			out = append(out, q)
		}
	}
	return out
}

var c07StateCfg = gen.StateCfg{D: gen.Boundary, JSON: true, Top: true}

func TestC07(t *testing.T) {
	col := stats.New("C07", "a base rule (generated condition of depth 1-3 and a generated int/float/string value expression written to the rule's own JSON sink, then self-retraction) plus 1-5 near-identical siblings that each differ from the base in exactly one place: a float constant changed at the 7th decimal or by one ulp, sign, exponent, int versus float, a string constant changed by one character (also quote, bracket, arrow), a boolean, one operator, an added or removed negation, operand order, a selector (index, key, field), argument order, a function name, and white-box snapshot-injection siblings (two string arguments versus one argument spelling their separator in the snapshot syntax). Facts come from a boundary pool and are moved between the two constants when the difference is a compared constant. Oracle: FetchMatchingRules membership and the final sink of every rule built together with its siblings (all build orders up to 3 rules, 3 drawn orders above) equal those of the rule built alone, also for a second call on the same instances on other facts (half of the cases); alone also equals the reference. Non-trivial: the siblings' results differ on the drawn facts. Distinct by the rule texts + state seed."+c07BystanderRule)
	defer col.Flush()
	paths := gen.AllPaths(c07StateCfg)
	check(t, 0, budget(4000, 50000), func(rt *rapid.T) {
		seed := rapid.Uint64Range(0, 1<<20).Draw(rt, "state_seed")
		st := gen.SeededState(seed, c07StateCfg)
		g := gen.NewXG(rt, gen.ExprCfg{Paths: paths, Recv: "F", Hostile: true, StrFuncs: true, Builtins: true, NoPtrNum: true, Chains: true})
		cond := g.Bool(rapid.IntRange(1, 3).Draw(rt, "cond_depth"))
		vt := []gast.Type{gast.TInt, gast.TFloat, gast.TStr}[rapid.IntRange(0, 2).Draw(rt, "val_type")]
		val := g.OfType(vt, rapid.IntRange(1, 2).Draw(rt, "val_depth"))
		if rapid.IntRange(0, 3).Draw(rt, "force_cat") == 0 {
			// make sure the argument-list siblings have something to work on
			val = &gast.Call{Recv: gast.P("F"), Name: "Cat", Args: []gast.Expr{gast.S(rapid.SampledFrom([]string{"a", ",", "-", ""}).Draw(rt, "cat_sep")), gast.S("b"), gast.S("c")}}
			vt = gast.TStr
		}
		if rapid.IntRange(0, 5).Draw(rt, "force_chain") == 0 {
			// make sure the selector siblings on call results have something to work on: a member of the result of a
			// call whose argument reads the facts
			arg, ai := g.Int(1)
			mk := &gast.Call{Recv: gast.P("F"), Name: "Mk", Args: []gast.Expr{g.NoBarePtr(c07Exact(arg, ai), false)}}
			if rapid.Bool().Draw(rt, "force_chain_index") {
				val = &gast.Index{X: &gast.Member{X: mk, Field: "Arr"}, Idx: gast.I(int64(rapid.IntRange(0, 2).Draw(rt, "force_chain_idx")))}
			} else {
				val = &gast.Member{X: mk, Field: "X"}
			}
			vt = gast.TInt
		}
		base := &c07Rule{Name: "Base", Cond: cond, Val: val, How: "base"}
		rules := []*c07Rule{base}
		nsib := rapid.IntRange(1, 5).Draw(rt, "nsiblings")
		var labels []string
		for i := 0; i < nsib; i++ {
			sib := &c07Rule{Name: fmt.Sprintf("Sib%d", i), Cond: gast.Clone(cond), Val: gast.Clone(val)}
			inCond := rapid.Bool().Draw(rt, "mutate_cond")
			var sites []site
			if inCond {
				sites = collectSites(rt, &sib.Cond)
			} else {
				sites = collectSites(rt, &sib.Val)
			}
			if len(sites) == 0 {
				if inCond {
					sites = collectSites(rt, &sib.Val)
				} else {
					sites = collectSites(rt, &sib.Cond)
				}
				inCond = !inCond
			}
			if len(sites) == 0 {
				continue
			}
			s := sites[rapid.IntRange(0, len(sites)-1).Draw(rt, "site")]
			s.apply()
			sib.How = s.kind
			if inCond {
				sib.How += " in condition"
			} else {
				sib.How += " in action"
			}
			labels = append(labels, "diff:"+s.kind)
			if s.cmpPath != nil && rapid.IntRange(0, 3).Draw(rt, "straddle") > 0 {
				// move the compared fact between the two constants
				var lit gast.Expr
				if s.isInt {
					lit = gast.I(int64([]float64{s.a, s.b}[rapid.IntRange(0, 1).Draw(rt, "straddle_side")]))
				} else {
					lit = gast.F((s.a + s.b) / 2)
				}
				if err := ref.New(st).Exec(&gast.Assign{LHS: s.cmpPath, Op: "=", RHS: lit}); err == nil {
					labels = append(labels, "straddled")
				}
			}
			rules = append(rules, sib)
		}
		if len(rules) < 2 {
			col.Case(gast.ExprString(cond), false, "no_mutation_site")
			return
		}
		var orders [][]int
		if len(rules) <= 3 {
			orders = permutations(len(rules))
		} else {
			for i := 0; i < 3; i++ {
				orders = append(orders, rapid.Permutation(indexes(len(rules))).Draw(rt, "order"))
			}
		}
		// half of the cases: the instances serve a second call on other facts
		var st2 *facts.State
		if rapid.Bool().Draw(rt, "second_call") {
			st2 = gen.SeededState(rapid.Uint64Range(0, 1<<20).Draw(rt, "state_seed_of_second_call"), c07StateCfg)
			labels = append(labels, "second_call_on_the_same_instance")
		}
		msgs, differ, err := c07Run(rules, st, orders, st2)
		if err != nil {
			// a sibling may be ill-typed (e.g. a negated number): outside the domain
			col.Case(gast.ExprString(cond), false, "sibling_not_buildable_or_failing")
			return
		}
		key := ""
		var enc []interface{}
		for _, r := range rules {
			key += gast.RuleString(r.rule())
			enc = append(enc, gast.EncodeRule(r.rule()))
		}
		labels = append(labels, fmt.Sprintf("rules:%d", len(rules)))
		col.Case(key+fmt.Sprint(seed), differ, labels...)
		if col.WantSample(differ) {
			var texts []string
			for _, r := range rules {
				texts = append(texts, r.How+": "+gast.RuleString(r.rule()))
			}
			col.Sample(map[string]interface{}{"rules": texts, "state_seed": seed}, differ)
		}
		if len(msgs) > 0 {
			msg := strings.Join(msgs, "\n") + "\n--- rules ---\n"
			for _, r := range rules {
				msg += r.How + ": " + gast.RuleString(r.rule()) + "\n"
			}
			path := col.Violation("C07", "C07/"+strings.Join(uniq(labels), ","), msg, c07Case{Rules: enc, Hows: hows(rules), State: st, State2: st2})
			rt.Fatalf("C07 violated: %s (replay %s)", msg, path)
		}
	})
	c07BystanderFamily(t, col)
}

func uniq(xs []string) []string {
	m := map[string]bool{}
	var out []string
	for _, x := range xs {
		if strings.HasPrefix(x, "diff:") && !m[x] {
			m[x] = true
			out = append(out, x)
		}
	}
	sort.Strings(out)
	return out
}

func init() {
	replayers["C07"] = func(raw json.RawMessage) error {
		var fam struct {
			Family string `json:"family"`
		}
		if json.Unmarshal(raw, &fam) == nil && fam.Family == "bystander" {
			return c07ReplayBystander(raw)
		}
		var c c07Case
		if err := json.Unmarshal(raw, &c); err != nil {
			return err
		}
		rs, err := gast.DecodeRules(c.Rules)
		if err != nil {
			return err
		}
		var rules []*c07Rule
		for i, r := range rs {
			a, ok := r.Then[0].(*gast.Assign)
			if !ok {
				return fmt.Errorf("unexpected rule shape")
			}
			how := ""
			if i < len(c.Hows) {
				how = c.Hows[i]
			}
			rules = append(rules, &c07Rule{Name: r.Name, Cond: r.When, Val: a.RHS, How: how})
		}
		msgs, _, err := c07Run(rules, c.State, permutationsCapped(len(rules)), c.State2)
		if err != nil {
			return nil
		}
		if len(msgs) > 0 {
			return fmt.Errorf("%s", strings.Join(msgs, "; "))
		}
		return nil
	}
	_ = reflect.TypeOf
}

func permutationsCapped(n int) [][]int {
	if n <= 4 {
		return permutations(n)
	}
	p := permutations(4)
	var out [][]int
	for _, q := range p {
		r := append([]int{}, q...)
		for i := 4; i < n; i++ {
			r = append(r, i)
		}
		out = append(out, r)
		rev := make([]int, n)
		for i := range r {
			rev[n-1-i] = r[i]
		}
		out = append(out, rev)
	}
	return out
}
