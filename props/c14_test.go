package props

import (
	"encoding/json"
	"fmt"
	"strings"
	"testing"

	"pgregory.net/rapid"

	"verif/internal/facts"
	"verif/internal/gast"
	"verif/internal/gen"
	"verif/internal/obs"
	"verif/internal/ref"
	"verif/internal/stats"
	"verif/internal/val"
)

// C14: failures inside a condition or an action are contained and reported.

// failing integer-valued expressions (each fails for a different reason)
var c14FailInt = []struct {
	Name string
	Mk   func() gast.Expr
}{
	{"index_out_of_range", func() gast.Expr { return gast.P("F", "Arr").At(gast.I(99)) }},
	{"negative_index", func() gast.Expr { return gast.P("F", "Arr").At(gast.I(-1)) }},
	{"missing_field", func() gast.Expr { return gast.P("F", "NoSuchField") }},
	{"missing_key", func() gast.Expr { return gast.P("F", "M").At(gast.S("zz")) }},
	{"missing_fact", func() gast.Expr { return gast.P("Missing", "X") }},
	{"panicking_method", func() gast.Expr { return &gast.Call{Recv: gast.P("F"), Name: "Boom"} }},
	{"panicking_method_int_value", func() gast.Expr { return &gast.Call{Recv: gast.P("F"), Name: "BoomI"} }},
	{"panicking_method_struct_value", func() gast.Expr { return &gast.Call{Recv: gast.P("F"), Name: "BoomV"} }},
	{"panicking_method_error_value", func() gast.Expr { return &gast.Call{Recv: gast.P("F"), Name: "BoomE"} }},
	{"two_result_method", func() gast.Expr { return &gast.Call{Recv: gast.P("F"), Name: "Two"} }},
	{"unknown_method", func() gast.Expr { return &gast.Call{Recv: gast.P("F"), Name: "Nope"} }},
	{"nil_method_result", func() gast.Expr { return &gast.Member{X: &gast.Call{Recv: gast.P("F"), Name: "NilSub"}, Field: "X"} }},
	{"modulo_zero", func() gast.Expr { return &gast.Bin{Op: gast.OpMod, L: gast.P("F", "I64"), R: gast.I(0)} }},
	{"wrong_argument_kind", func() gast.Expr {
		return &gast.Call{Recv: gast.P("F"), Name: "Add64", Args: []gast.Expr{gast.F(1.5), gast.I(2)}}
	}},
	{"kind_mismatch", func() gast.Expr { return &gast.Bin{Op: gast.OpMul, L: gast.P("F", "S"), R: gast.I(2)} }},
	{"json_missing_member", func() gast.Expr { return gast.P("J", "nope") }},
	{"integer_key_on_string_map", func() gast.Expr { return gast.P("F", "ROM").At(gast.I(97)) }},
	{"integer_variable_key_on_string_map", func() gast.Expr { return gast.P("F", "ROM").At(gast.P("F", "I64")) }},
	{"nil_pointer", func() gast.Expr { return gast.P("F", "Sub", "X") }}, // with F.Sub == nil
}

// c14Hot is set by the C14 test to the hot locations of the case being generated: failures that depend on
// them start and stop during the run (an index that walks out of range, a key that appears, a divisor
// that becomes zero), unlike the static kinds, which fail from the first evaluation on.
var c14Hot []gen.PathInfo

func c14Dynamic(rt *rapid.T) (string, gast.Expr, bool) {
	var ints, strs []gen.PathInfo
	for _, h := range c14Hot {
		// (an index of an unsigned kind is not supported by the engine at all: it reads the selector with
		// reflect.Value.Int - generator restriction, see DESIGN 9.2)
		if h.T == gast.TInt && !h.ArithOnly && !h.Loose && !h.Unsigned {
			ints = append(ints, h)
		}
		if h.T == gast.TStr {
			strs = append(strs, h)
		}
	}
	switch rapid.IntRange(0, 2).Draw(rt, "dynamic_kind") {
	case 0:
		if len(ints) > 0 {
			h := ints[rapid.IntRange(0, len(ints)-1).Draw(rt, "dynamic_loc")]
			return "dynamic_index", gast.P("F", "RO").At(h.Mk()), true
		}
	case 1:
		if len(strs) > 0 {
			h := strs[rapid.IntRange(0, len(strs)-1).Draw(rt, "dynamic_loc")]
			// (a map no rule writes: a computed key on a written map would be a second spelling of a
			// written location, which the engine's invalidation does not follow - DESIGN 2.5 R2)
			return "dynamic_key", gast.P("F", "ROM").At(h.Mk()), true
		}
	default:
		if len(ints) > 0 {
			h := ints[rapid.IntRange(0, len(ints)-1).Draw(rt, "dynamic_loc")]
			return "dynamic_modulo_zero", &gast.Bin{Op: gast.OpMod, L: gast.I(7), R: h.Mk()}, true
		}
	}
	return "", nil, false
}

// c14FailBool draws a boolean expression that fails to evaluate (statically, or depending on a hot
// location so that the failure starts or stops during the run).
func c14FailBool(rt *rapid.T, st *facts.State) (gast.Expr, string, func() gast.Expr) {
	f := c14FailInt[rapid.IntRange(0, len(c14FailInt)-1).Draw(rt, "fail_kind")]
	if len(c14Hot) > 0 && rapid.IntRange(0, 1).Draw(rt, "dynamic_failure") == 0 {
		if name, e, ok := c14Dynamic(rt); ok {
			f.Name = name
			f.Mk = func() gast.Expr { return gast.Clone(e) }
		}
	}
	if f.Name == "nil_pointer" {
		st.Go["F"].Sub = nil
	}
	var failBool gast.Expr = &gast.Bin{Op: gast.OpGT, L: f.Mk(), R: gast.I(int64(rapid.IntRange(0, 3).Draw(rt, "fail_cmp")))}
	if rapid.Bool().Draw(rt, "fail_parenthesised") {
		if rapid.Bool().Draw(rt, "fail_negated") {
			failBool = &gast.Not{X: &gast.Paren{X: failBool}}
		} else {
			failBool = &gast.Paren{X: failBool}
		}
	}
	return failBool, f.Name, f.Mk
}

// c14JoinCond puts the failing expression into the rule's condition (alone, and-ed, or-ed on either side).
func c14JoinCond(rt *rapid.T, r *gast.Rule, failBool gast.Expr) {
	switch rapid.IntRange(0, 5).Draw(rt, "fail_join") {
	case 5:
		// the condition as a whole is not boolean although everything in it evaluates fine (it stays
		// remembered from cycle to cycle, unlike a condition that fails below its top node)
		var e gast.Expr = gast.P("F", "I64")
		switch rapid.IntRange(0, 3).Draw(rt, "non_boolean_kind") {
		case 1:
			e = &gast.Bin{Op: gast.OpAdd, L: gast.P("F", "I64"), R: gast.I(1)}
		case 2:
			e = &gast.Bin{Op: gast.OpAdd, L: gast.P("F", "S2"), R: gast.S("x")}
		case 3:
			e = &gast.Call{Recv: gast.P("F"), Name: "Add64", Args: []gast.Expr{gast.I(1), gast.I(2)}}
		}
		r.When = e
	case 0:
		r.When = failBool
	case 4:
		r.When = &gast.Bin{Op: gast.OpAnd, L: failBool, R: r.When}
	case 1:
		r.When = &gast.Bin{Op: gast.OpAnd, L: r.When, R: failBool}
	case 2:
		r.When = &gast.Bin{Op: gast.OpOr, L: failBool, R: r.When}
	default:
		r.When = &gast.Bin{Op: gast.OpOr, L: r.When, R: failBool}
	}
}

// c14WalkScenario adds two rules that make a condition start failing in the middle of a run while the
// run goes on: "Walk" reads a slice through an index it advances itself (so it fails once the index
// leaves the slice), "Tick" keeps the engine cycling.
func c14WalkScenario(rt *rapid.T, c *val.Case, rs *gen.RuleSet) bool {
	var ints []gen.PathInfo
	for _, h := range rs.Hot {
		if h.T == gast.TInt && !h.ArithOnly && !h.Loose && !h.Unsigned {
			ints = append(ints, h)
		}
	}
	if len(ints) == 0 {
		return false
	}
	idx := ints[rapid.IntRange(0, len(ints)-1).Draw(rt, "walk_index")]
	var read gast.Expr = &gast.Bin{Op: gast.OpGTE, L: gast.P("F", "RO").At(idx.Mk()), R: gast.I(0)}
	switch rapid.IntRange(0, 3).Draw(rt, "walk_shape") {
	case 1:
		read = &gast.Paren{X: read}
	case 2:
		read = &gast.Not{X: &gast.Paren{X: &gast.Bin{Op: gast.OpLT, L: gast.P("F", "RO").At(idx.Mk()), R: gast.I(0)}}}
	case 3:
		read = &gast.Bin{Op: gast.OpAnd, L: &gast.Paren{X: read}, R: gast.B(true)}
	}
	walk := &gast.Rule{Name: "Walk", When: read, Then: []gast.Stmt{&gast.Assign{LHS: idx.Mk(), Op: "+=", RHS: gast.I(1)}}}
	tick := &gast.Rule{Name: "Tick", When: &gast.Bin{Op: gast.OpLT, L: gast.P("F", "H"), R: gast.I(int64(rapid.IntRange(3, 9).Draw(rt, "tick_limit")))},
		Then: []gast.Stmt{&gast.Assign{LHS: gast.P("F", "H"), Op: "+=", RHS: gast.I(1)}}}
	sw, st := int64(rapid.IntRange(-2, 2).Draw(rt, "walk_salience")), int64(rapid.IntRange(-2, 2).Draw(rt, "tick_salience"))
	walk.Salience, tick.Salience = &sw, &st
	c.Rules = append(c.Rules, walk, tick)
	c.Init.Go["F"].H = 0
	c.MaxCycle = 30
	return true
}

// c14Rerender renders the texts of a case again after its rules were changed.
func c14Rerender(c *val.Case) {
	c.Text = gast.RulesString(c.Rules)
	c.Texts = nil // the resources were rendered before the change
	for _, r := range c.Rules {
		c.SoloTexts[r.Name] = gast.RuleString(r)
	}
}

// maybeFailingConditions turns a quarter of the cases of the run-validating checks (C01 C02 C03 C06 C10)
// into cases in which some condition fails to evaluate - from the start, or from / until some cycle of
// the run: such a rule is simply not a candidate in that cycle, and everything the property says about
// the other rules and about later cycles must go on holding.
func maybeFailingConditions(rt *rapid.T, c *val.Case, rs *gen.RuleSet) bool {
	if rapid.IntRange(0, 3).Draw(rt, "with_failing_conditions") != 0 {
		return false
	}
	c14Hot = rs.Hot
	defer func() { c14Hot = nil }()
	if !usesH(c.Rules) && rapid.IntRange(0, 2).Draw(rt, "walk_scenario") == 0 {
		c14WalkScenario(rt, c, rs)
	}
	n := rapid.IntRange(1, 2).Draw(rt, "ninject")
	for i := 0; i < n; i++ {
		r := c.Rules[rapid.IntRange(0, len(c.Rules)-1).Draw(rt, "inject_rule")]
		fb, _, _ := c14FailBool(rt, c.Init)
		c14JoinCond(rt, r, fb)
	}
	c14Rerender(c)
	rs.Feat["condition_that_fails_to_evaluate"]++
	return true
}

// usesH reports whether some rule mentions the hidden counter F.H / its accessors (the walk scenario
// uses it as its own clock).
func usesH(rules []*gast.Rule) bool {
	found := false
	for _, r := range rules {
		txt := gast.RuleString(r)
		if strings.Contains(txt, "F.H") || strings.Contains(txt, "GetH") || strings.Contains(txt, "BumpH") || strings.Contains(txt, "SetH") {
			found = true
		}
	}
	return found
}

// c14Inject adds a failing sub-expression to a rule and says where.
func c14Inject(rt *rapid.T, r *gast.Rule, st *facts.State) (where string, kind string) {
	failBool, name, mk := c14FailBool(rt, st)
	f := struct {
		Name string
		Mk   func() gast.Expr
	}{name, mk}
	if rapid.IntRange(0, 2).Draw(rt, "fail_where") > 0 {
		c14JoinCond(rt, r, failBool)
		return "condition", f.Name
	}
	// failing action at a drawn position
	pos := rapid.IntRange(0, len(r.Then)).Draw(rt, "fail_pos")
	var st2 gast.Stmt = &gast.Assign{LHS: gast.P("F", "I32"), Op: "=", RHS: f.Mk()}
	if rapid.IntRange(0, 3).Draw(rt, "fail_stmt_kind") == 0 {
		// failing store instead of failing evaluation
		switch rapid.IntRange(0, 5).Draw(rt, "fail_store") {
		case 4:
			st2 = &gast.Assign{LHS: gast.P("J", "arr").At(gast.I(99)), Op: "=", RHS: gast.I(1)}
			f.Name = "store_json_index_out_of_range"
		case 5:
			st2 = &gast.Assign{LHS: gast.P("J", "arr").At(gast.I(-1)), Op: "=", RHS: gast.I(1)}
			f.Name = "store_json_negative_index"
		case 3:
			st2 = &gast.Assign{LHS: gast.P("F", "M").At(gast.I(97)), Op: "=", RHS: gast.I(1)}
			f.Name = "store_integer_key_on_string_map"
		case 0:
			st2 = &gast.Assign{LHS: gast.P("F", "Arr").At(gast.I(99)), Op: "=", RHS: gast.I(1)}
			f.Name = "store_index_out_of_range"
		case 1:
			st2 = &gast.Assign{LHS: gast.P("F", "S"), Op: "=", RHS: gast.I(1)}
			f.Name = "store_kind_mismatch"
		default:
			st2 = &gast.Assign{LHS: gast.P("F", "NoSuchField"), Op: "=", RHS: gast.I(1)}
			f.Name = "store_missing_field"
		}
	}
	then := append([]gast.Stmt{}, r.Then[:pos]...)
	then = append(then, st2)
	then = append(then, r.Then[pos:]...)
	r.Then = then
	return fmt.Sprintf("action_%d", pos+1), f.Name
}

func c14Collect(rep *val.Report) []string {
	var v []string
	for _, p := range []string{"C14", "C01", "C02", "C04", "C06", "C10"} {
		for _, m := range rep.Of(p) {
			v = append(v, "["+p+"-clause] "+m)
		}
	}
	return v
}

// c14NamesRule reports whether the error text names the rule.
func c14NamesRule(err error, name string) bool {
	if err == nil {
		return false
	}
	s := err.Error()
	return strings.Contains(s, "'"+name+"'") || strings.Contains(s, "rule "+name+" ") || strings.Contains(s, "rule "+name+".") || strings.HasSuffix(s, "rule "+name)
}

// c14CheckErrOnFail: with the flag set and a run that ended with an evaluation error, the error
// must name a rule whose condition really fails on the final facts, and nothing may follow.
func c14CheckErrOnFail(c *val.Case, prep *val.Prepared, rep *val.Report) []string {
	if !c.ErrOnFail || rep.Err == nil || val.IsCycleLimitErr(rep.Err) || strings.Contains(rep.Err.Error(), "error while executing rule") {
		return nil
	}
	live := rep.Final.Copy()
	dc, err := obs.NewDataContext(live)
	if err != nil {
		return []string{"harness: " + err.Error()}
	}
	ok := false
	for _, r := range c.Rules {
		_, terr := prep.Solo.Truth(r.Name, live, dc)
		_, rerr := ref.New(rep.Final.Copy()).Eval(r.When)
		if (terr != nil || (rerr != nil && !ref.IsUndefined(rerr))) && c14NamesRule(rep.Err, r.Name) {
			ok = true
		}
	}
	if !ok {
		return []string{fmt.Sprintf("ReturnErrOnFailedRuleEvaluation is set and Execute returned %q, which names no rule whose condition fails on the facts of that moment", rep.Err.Error())}
	}
	return nil
}

func c14RunStructural(c *val.Case) (*val.Report, []string, error) {
	prep, err := val.Prepare(c)
	if err != nil {
		return nil, nil, err
	}
	var rep *val.Report
	for i := 0; i < repsFor(); i++ {
		rep = val.Run(c, prep)
		if rep.Harness != "" {
			return rep, nil, fmt.Errorf("%s", rep.Harness)
		}
		v := c14Collect(rep)
		v = append(v, c14CheckErrOnFail(c, prep, rep)...)
		if len(v) > 0 {
			sawFailure = true
			return rep, v, nil
		}
	}
	return rep, nil, nil
}

// c14CheckFault validates a run with an injected probe failure.
func c14CheckFault(c *val.Case, rep *val.Report) []string {
	v := c14Collect(rep)
	if !rep.FaultSeen {
		return v
	}
	switch rep.FaultIn {
	case "condition":
		if c.ErrOnFail {
			if rep.Err == nil {
				v = append(v, "an injected failure in a condition with ReturnErrOnFailedRuleEvaluation set did not make Execute return an error")
			} else {
				named := false
				for _, r := range c.Rules {
					if c14NamesRule(rep.Err, r.Name) {
						named = true
					}
				}
				if !named {
					v = append(v, fmt.Sprintf("the evaluation error names no rule: %v", rep.Err))
				}
				for i := rep.FaultEventIndex + 1; i < len(rep.Events); i++ {
					if rep.Events[i].Kind != obs.EvProbe {
						v = append(v, fmt.Sprintf("event %s after the failing evaluation although the error was to be returned", rep.Events[i]))
						break
					}
				}
			}
		}
	case "action":
		if rep.Err == nil {
			v = append(v, fmt.Sprintf("an action of rule %s failed (injected) but Execute returned nil", rep.FaultRule))
		} else if !c14NamesRule(rep.Err, rep.FaultRule) {
			v = append(v, fmt.Sprintf("the action error does not name rule %s: %v", rep.FaultRule, rep.Err))
		}
		for i := rep.FaultEventIndex + 1; i < len(rep.Events); i++ {
			if rep.Events[i].Kind != obs.EvProbe {
				v = append(v, fmt.Sprintf("event %s after the failing action: a further rule was processed", rep.Events[i]))
				break
			}
		}
		// effects: exactly those of a prefix of the action list that ends right before a statement
		// mentioning a probe
		if rep.FaultPre != nil && rep.FaultPost != nil {
			var rule *gast.Rule
			for _, r := range c.Rules {
				if r.Name == rep.FaultRule {
					rule = r
				}
			}
			matched := false
			var firstDiff []string
			for j := 0; j < len(rule.Then); j++ {
				if !stmtHasProbe(rule.Then[j]) {
					continue
				}
				model := rep.FaultPre.Copy()
				env := ref.New(model)
				if _, err := env.ExecAll(rule.Then[:j]); err != nil {
					if ref.IsUndefined(err) {
						matched = true // outside the quantifier
					}
					break
				}
				d := facts.Diff(model, rep.FaultPost)
				if len(d) == 0 {
					matched = true
					break
				}
				if firstDiff == nil {
					firstDiff = d
				}
			}
			if !matched {
				if len(firstDiff) > 5 {
					firstDiff = firstDiff[:5]
				}
				v = append(v, fmt.Sprintf("after the failing action of rule %s the facts are not those left by the actions completed before it: %s", rep.FaultRule, strings.Join(firstDiff, "; ")))
			}
		}
	}
	return v
}

func stmtHasProbe(s gast.Stmt) bool {
	found := false
	gast.WalkStmt(s, func(x gast.Expr) {
		if c, ok := x.(*gast.Call); ok && c.Recv != nil {
			switch c.Name {
			case "P", "PB", "PV", "PS", "Mark":
				found = true
			}
		}
	})
	return found
}

type c14FaultCase struct {
	RS *rsCase `json:"run"`
}

func TestC14(t *testing.T) {
	col := stats.New("C14", "two generated families. (1) structural failures: rule sets as for C01 with one failing sub-expression injected into a condition (alone, and-ed, or-ed on either side) or as a failing action at a drawn position of an action list - index/key out of range, missing field, missing fact, nil pointer, nil method result, methods panicking with a string / an integer / a struct / an error value, two-result method, unknown method, wrong argument kind, kind mismatch, integer modulo zero, failing stores - with both settings of ReturnErrOnFailedRuleEvaluation. (2) fault enumeration: rule sets with counted probes in conditions, right-hand sides and call statements; a fault-free baseline counts the probe invocations n, then the k-th invocation is made to panic or to dereference nil for k = 1..n (all k in the thorough tier, up to 6 per case in quick; the invocation panics with a string, a runtime error, a struct value or an error value). Oracle: no panic leaves Execute; a failing condition makes exactly that rule a non-candidate in that cycle while every other rule keeps its fresh status and the run validates as usual (default), or Execute returns an error naming a rule whose condition really fails and nothing follows (flag set); a failing action makes Execute return an error naming the rule, the facts equal the reference replay of the completed actions, and no further event follows; a probe shared with a healthy rule is retried there. Non-trivial: the failure hit a sub-expression shared with another rule, or action j>1, or a cycle > 1. Distinct by rule text + state + fault point.",
		"the attribution of an injected probe failure to a rule uses the event order (the evaluation event that follows the failing invocation)")
	defer col.Flush()
	ref.StrictKinds = true
	defer func() { ref.StrictKinds = false }()
	rc := fullRuleCfg()
	rc.Forget = false
	rc.MinRules = 2
	cfgS := rsGenCfg{Rules: rc, Vary: true}
	// (1) structural failures
	check(t, 0, budget(2400, 40000), func(rt *rapid.T) {
		c, rs := genRSCase(rt, cfgS)
		c14Hot = rs.Hot
		defer func() { c14Hot = nil }()
		var wheres, kinds []string
		// a scenario that makes a condition start failing in the middle of a run while the run goes on:
		// "Walk" reads a slice through an index it advances itself (so it fails once the index leaves
		// the slice), "Tick" keeps the engine cycling
		if rapid.IntRange(0, 3).Draw(rt, "walk_scenario") == 0 {
			if c14WalkScenario(rt, c, rs) {
				wheres = append(wheres, "condition")
				kinds = append(kinds, "walk_out_of_range")
			}
		}
		n := rapid.IntRange(1, 2).Draw(rt, "ninject")
		for i := 0; i < n; i++ {
			r := c.Rules[rapid.IntRange(0, len(c.Rules)-1).Draw(rt, "inject_rule")]
			w, k := c14Inject(rt, r, c.Init)
			wheres = append(wheres, w)
			kinds = append(kinds, k)
		}
		// texts must be re-rendered after the injection
		c14Rerender(c)
		c.ErrOnFail = rapid.Bool().Draw(rt, "err_on_fail")
		c.RefFailures = true
		rep, v, err := c14RunStructural(c)
		if err != nil {
			rt.Fatalf("harness: %v\n%s", err, c.Text)
		}
		nt := false
		labels := append(featLabels(rs), "family:structural", "ended:"+rep.EndedBy, fmt.Sprintf("err_on_fail:%v", c.ErrOnFail))
		for i := range wheres {
			labels = append(labels, "where:"+strings.SplitN(wheres[i], "_", 2)[0], "kind:"+kinds[i])
			if strings.HasPrefix(wheres[i], "action_") && wheres[i] != "action_1" {
				nt = true
			}
		}
		if rep.Cycles > 1 {
			nt = true
		}
		if rep.Excluded != "" {
			labels = append(labels, "excluded_out_of_quantifier")
		}
		col.Case(c.Text+fmt.Sprint(c.Init.Go["F"].I64, c.MaxCycle, c.ErrOnFail), nt, labels...)
		if col.WantSample(nt) {
			col.Sample(sampleOf(c, rep), nt)
		}
		if len(v) > 0 {
			reportViolation(rt, col, "C14", c, rep, v)
		}
	})
	// (2) probe fault enumeration
	rcP := fullRuleCfg()
	rcP.Forget = false
	rcP.Probes, rcP.Marks = true, true
	rcP.MinRules = 2
	cfgP := rsGenCfg{Rules: rcP, Vary: true, MaxCycle: func(rt *rapid.T) uint64 { return uint64(rapid.IntRange(1, 8).Draw(rt, "maxcycle")) }}
	exhaustiveAll := true
	check(t, 1, budget(1200, 12000), func(rt *rapid.T) {
		c, rs := genRSCase(rt, cfgP)
		c.ErrOnFail = rapid.Bool().Draw(rt, "err_on_fail")
		prep, err := val.Prepare(c)
		if err != nil {
			rt.Fatalf("harness: %v\n%s", err, c.Text)
		}
		base := val.Run(c, prep)
		n := len(base.ProbeCalls)
		if n == 0 {
			col.Case(c.Text, false, "family:probe_fault", "no_probe_invoked")
			return
		}
		ks := indexes(n)
		if !stats.Thorough() && n > 6 {
			// a drawn sample of fault points
			exhaustiveAll = false
			perm := rapid.Permutation(ks).Draw(rt, "fault_points")
			ks = perm[:6]
		}
		for _, k0 := range ks {
			k := k0 + 1
			for _, mode := range []facts.FailMode{facts.FailPanic, facts.FailNilDeref, facts.FailPanicValue, facts.FailPanicError} {
				c.ProbeFailAt, c.ProbeMode = k, mode
				var rep *val.Report
				var v []string
				for i := 0; i < repsFor(); i++ {
					rep = val.Run(c, prep)
					v = c14CheckFault(c, rep)
					if len(v) > 0 {
						sawFailure = true
						break
					}
				}
				nt := rep.FaultSeen && (rep.FaultCycle > 1 || rep.FaultIn == "action" || rep.Cycles > 1)
				labels := append(featLabels(rs), "family:probe_fault", "fault_in:"+rep.FaultIn, fmt.Sprintf("err_on_fail:%v", c.ErrOnFail), fmt.Sprintf("mode:%d", mode))
				if !rep.FaultSeen {
					labels = append(labels, "fault_point_not_reached_in_this_order")
				}
				col.Case(fmt.Sprint(c.Text, c.Init.Go["F"].I64, c.MaxCycle, k, mode, c.ErrOnFail), nt, labels...)
				col.AddExtra("fault_points_enumerated", 1)
				if col.WantSample(nt) {
					s := sampleOf(c, rep)
					s["fault_at_invocation"] = k
					s["fault_in"] = rep.FaultIn
					col.Sample(s, nt)
				}
				if len(v) > 0 {
					reportViolation(rt, col, "C14", c, rep, v)
				}
			}
		}
		c.ProbeFailAt = 0
	})
	col.Extra("fault_enumeration_per_case_exhaustive", exhaustiveAll)
}

func init() {
	replayers["C14"] = func(raw json.RawMessage) error {
		var r rsCase
		if err := json.Unmarshal(raw, &r); err != nil {
			return err
		}
		c, err := fromRSCase(&r)
		if err != nil {
			return err
		}
		ref.StrictKinds = true
		defer func() { ref.StrictKinds = false }()
		prep, err := val.Prepare(c)
		if err != nil {
			return err
		}
		for i := 0; i < 64; i++ {
			rep := val.Run(c, prep)
			var v []string
			if c.ProbeFailAt > 0 {
				v = c14CheckFault(c, rep)
			} else {
				v = append(c14Collect(rep), c14CheckErrOnFail(c, prep, rep)...)
			}
			if len(v) > 0 {
				return fmt.Errorf("%s", strings.Join(v, "; "))
			}
		}
		return nil
	}
	_ = gen.Small
}
