package props

import (
	"bufio"
	"bytes"
	"context"
	"encoding/base64"
	"encoding/binary"
	"encoding/json"
	"fmt"
	"os"
	"os/exec"
	"path/filepath"
	"sort"
	"strconv"
	"strings"
	"testing"
	"time"

	"github.com/hyperjumptech/grule-rule-engine/ast"
	"github.com/hyperjumptech/grule-rule-engine/builder"
	"github.com/hyperjumptech/grule-rule-engine/pkg"
	"pgregory.net/rapid"

	"verif/internal/facts"
	"verif/internal/gast"
	"verif/internal/gen"
	"verif/internal/obs"
	"verif/internal/recog"
	"verif/internal/stats"
)

// C20: no loader crashes, hangs or over-allocates on arbitrary input.

const (
	c20GRL      = 0
	c20JSONRule = 1
	c20JSONFact = 2
	c20GRB      = 3
	// the JSON -> GRL translation alone (no build): the translator is linear, so the open finding
	// about the builder's cubic cost does not apply to it
	c20JSONTranslate = 4
	c20GRBThenGRL    = 5

	c20AllocBase = 64 << 20  // 64 MiB
	c20AllocPerB = 256 << 10 // 256 KiB per input byte
	// inputs whose longest chain is shorter than c20ChainFlat are held to c20AllocPerBFlat per input byte
	c20AllocPerBFlat = 8 << 10
	c20ChainFlat     = 8
	c20TimeLimit     = 20 * time.Second
	c20AddrLimit     = 3 << 30 // RLIMIT_AS of the child
	c20ChainKnown    = 64      // inputs with a longer operator/selector/parenthesis chain are the open finding
	c20MaxInputLen   = 64 << 10
)

var c20TargetName = []string{"grl", "jsonrule", "jsonfact", "grb", "jsontranslate", "grb-then-grl"}

const c20HandOverRule = `rule ZZHandOver "built after the load" salience 3 { when F.I64 > 1 && F.S == "x" then F.I64 = F.I64 + 1; Retract("ZZHandOver"); }`

type c20Input struct {
	Target int    `json:"target"`
	Kind   string `json:"kind"`
	Data   []byte `json:"-"`
}

type c20Result struct {
	Status string
	Alloc  uint64
	Dur    time.Duration
	Detail string
	Died   string // non-empty: the child process died or hung on this input
}

type c20Replay struct {
	Target string `json:"target"`
	Kind   string `json:"kind"`
	Base64 string `json:"input_base64"`
	Text   string `json:"input_text_if_printable,omitempty"`
}

func c20WriteBatch(path string, ins []c20Input) error {
	var b bytes.Buffer
	for _, in := range ins {
		b.WriteByte(byte(in.Target))
		var l [4]byte
		binary.LittleEndian.PutUint32(l[:], uint32(len(in.Data)))
		b.Write(l[:])
		b.Write(in.Data)
	}
	return os.WriteFile(path, b.Bytes(), 0o644)
}

// c20RunBatch feeds the inputs to child processes; when a child dies or hangs, the input it was
// working on is the culprit and a new child continues after it.
func c20RunBatch(ins []c20Input) ([]c20Result, error) {
	child := os.Getenv("VERIF_LOADERCHILD")
	if child == "" {
		return nil, fmt.Errorf("VERIF_LOADERCHILD is not set (run through ./check)")
	}
	dir, err := os.MkdirTemp("", "c20-")
	if err != nil {
		return nil, err
	}
	defer os.RemoveAll(dir)
	batch := filepath.Join(dir, "batch.bin")
	if err := c20WriteBatch(batch, ins); err != nil {
		return nil, err
	}
	res := make([]c20Result, len(ins))
	done := make([]bool, len(ins))
	first := 0
	for first < len(ins) {
		ctx, cancel := context.WithTimeout(context.Background(), c20TimeLimit+time.Duration(len(ins)-first)*2*time.Second)
		cmd := exec.CommandContext(ctx, child, batch, strconv.Itoa(first), strconv.Itoa(c20AddrLimit))
		var stderr bytes.Buffer
		cmd.Stderr = &stderr
		out, _ := cmd.StdoutPipe()
		if err := cmd.Start(); err != nil {
			cancel()
			return nil, err
		}
		current := -1
		finished := false
		sc := bufio.NewScanner(out)
		sc.Buffer(make([]byte, 1<<20), 1<<20)
		for sc.Scan() {
			ln := sc.Text()
			switch {
			case strings.HasPrefix(ln, "B "):
				current, _ = strconv.Atoi(ln[2:])
			case strings.HasPrefix(ln, "R "):
				f := strings.SplitN(ln, " ", 6)
				if len(f) < 5 {
					continue
				}
				i, _ := strconv.Atoi(f[1])
				a, _ := strconv.ParseUint(f[3], 10, 64)
				ns, _ := strconv.ParseInt(f[4], 10, 64)
				r := c20Result{Status: f[2], Alloc: a, Dur: time.Duration(ns)}
				if len(f) == 6 {
					r.Detail = f[5]
				}
				if i >= 0 && i < len(res) {
					res[i] = r
					done[i] = true
				}
			case ln == "DONE":
				finished = true
			}
		}
		werr := cmd.Wait()
		timedOut := ctx.Err() != nil
		cancel()
		if finished {
			break
		}
		// the child died: blame the input it was working on
		if current < 0 || current >= len(ins) || done[current] {
			return nil, fmt.Errorf("loader child failed outside an input (%v): %s", werr, tail(stderr.String(), 400))
		}
		why := fmt.Sprintf("the process died (%v): %s", werr, firstLine(strings.TrimSpace(stderr.String())))
		if timedOut {
			why = "the loader did not return within the time limit (hang guard)"
		}
		res[current] = c20Result{Died: why}
		done[current] = true
		first = current + 1
	}
	for i := range done {
		if !done[i] {
			return nil, fmt.Errorf("no result for input %d", i)
		}
	}
	return res, nil
}

func tail(s string, n int) string {
	if len(s) > n {
		return s[len(s)-n:]
	}
	return s
}

// longestChain estimates the longest operator / selector / parenthesis chain of one statement.
func longestChain(in c20Input) int {
	switch in.Target {
	case c20GRL, c20JSONRule:
		toks, _ := recog.Lex(string(in.Data), false)
		best, cur, depth, maxDepth := 0, 0, 0, 0
		for _, t := range toks {
			switch t.K {
			case recog.SEMICOLON, recog.LBRACE, recog.RBRACE, recog.WHEN, recog.THEN, recog.RULE:
				if cur+maxDepth > best {
					best = cur + maxDepth
				}
				cur, depth, maxDepth = 0, 0, 0
			case recog.LPAREN, recog.LBRACK:
				depth++
				if depth > maxDepth {
					maxDepth = depth
				}
			case recog.RPAREN, recog.RBRACK:
				if depth > 0 {
					depth--
				}
			case recog.DOT, recog.PLUS, recog.MINUS, recog.MUL, recog.DIV, recog.MOD, recog.AND, recog.OR, recog.BITAND, recog.BITOR, recog.EQUALS, recog.NOTEQUALS,
				recog.GT, recog.LT, recog.GTE, recog.LTE, recog.NEGATION, recog.COMMA:
				cur++
			}
		}
		if cur+maxDepth > best {
			best = cur + maxDepth
		}
		if in.Target == c20JSONRule {
			// JSON nesting becomes parentheses
			d, md := 0, 0
			for _, c := range in.Data {
				switch c {
				case '{', '[':
					d++
					if d > md {
						md = d
					}
				case '}', ']':
					d--
				}
			}
			if md > best {
				best = md
			}
			if n := bytes.Count(in.Data, []byte(",")); n > best {
				best = n
			}
		}
		return best
	}
	return 0
}

func c20Judge(in c20Input, r c20Result) (violation string, knownCubic bool) {
	limit := uint64(c20AllocBase) + uint64(c20AllocPerB)*uint64(len(in.Data))
	chain := longestChain(in)
	if chain < c20ChainFlat {
		// an input without any chain to speak of costs a few hundred bytes per input byte: a much tighter bound
		limit = uint64(c20AllocBase) + uint64(c20AllocPerBFlat)*uint64(len(in.Data))
	}
	resource := ""
	switch {
	case r.Died != "":
		resource = r.Died
	case r.Alloc > limit:
		resource = fmt.Sprintf("allocated %d MiB for an input of %d bytes (bound %d MiB)", r.Alloc>>20, len(in.Data), limit>>20)
	case r.Dur > c20TimeLimit:
		resource = fmt.Sprintf("needed %v for an input of %d bytes", r.Dur, len(in.Data))
	}
	if resource != "" {
		if chain >= c20ChainKnown && (in.Target == c20GRL || in.Target == c20JSONRule) {
			return "", true
		}
		return fmt.Sprintf("%s loader: %s", c20TargetName[in.Target], resource), false
	}
	if r.Status == "panic" {
		return fmt.Sprintf("%s loader: a panic escaped: %s", c20TargetName[in.Target], r.Detail), false
	}
	return "", false
}

// ---- generators ---------------------------------------------------------------------------------

var c20Numbers = []uint64{0, 1, 7, 8, 0x7f, 0x80, 0xff, 0x100, 0xffff, 0x10000, 0x7fffffff, 0x80000000, 0xffffffff, 0x100000000, 1 << 40, 1 << 47, 0x7fffffffffffffff, 0x8000000000000000, 0xffffffffffffffff}

func c20MutateBytes(rt *rapid.T, b []byte, other []byte, offsets []int) ([]byte, string) {
	b = append([]byte{}, b...)
	kinds := []string{"bitflip", "setbyte", "delete", "duplicate", "insert", "truncate", "splice", "number8", "lengthfield", "repeat"}
	inner := c20InnerLengths(b)
	if len(inner) > 0 {
		kinds = append(kinds, "innerlength", "innerlength")
	}
	ids := c20IDs(b)
	if len(ids) >= 2 {
		kinds = append(kinds, "idswap", "idswap")
	}
	kind := rapid.SampledFrom(kinds).Draw(rt, "bmut")
	if len(b) == 0 {
		return []byte{byte(rapid.IntRange(0, 255).Draw(rt, "byte"))}, "insert"
	}
	pos := rapid.IntRange(0, len(b)-1).Draw(rt, "bpos")
	switch kind {
	case "bitflip":
		b[pos] ^= 1 << uint(rapid.IntRange(0, 7).Draw(rt, "bit"))
	case "setbyte":
		b[pos] = []byte{0, 0xff, 0x7f, 0x80, '"', '{', '[', '\\', '/', '*'}[rapid.IntRange(0, 9).Draw(rt, "bval")]
	case "delete":
		n := rapid.IntRange(1, 16).Draw(rt, "blen")
		if pos+n > len(b) {
			n = len(b) - pos
		}
		b = append(b[:pos], b[pos+n:]...)
	case "duplicate":
		n := rapid.IntRange(1, 64).Draw(rt, "blen")
		if pos+n > len(b) {
			n = len(b) - pos
		}
		b = append(b[:pos+n], append(append([]byte{}, b[pos:pos+n]...), b[pos+n:]...)...)
	case "insert":
		n := rapid.IntRange(1, 8).Draw(rt, "blen")
		ins := make([]byte, n)
		for i := range ins {
			ins[i] = byte(rapid.IntRange(0, 255).Draw(rt, "ibyte"))
		}
		b = append(b[:pos], append(ins, b[pos:]...)...)
	case "truncate":
		b = b[:pos]
	case "splice":
		if len(other) > 0 {
			q := rapid.IntRange(0, len(other)-1).Draw(rt, "spos")
			b = append(b[:pos], other[q:]...)
		}
	case "number8":
		if pos+8 <= len(b) {
			binary.LittleEndian.PutUint64(b[pos:], c20Numbers[rapid.IntRange(0, len(c20Numbers)-1).Draw(rt, "num")])
		}
	case "lengthfield":
		// overwrite a field boundary (where the format stores counts and lengths) with a hostile number
		if len(offsets) > 0 {
			o := offsets[rapid.IntRange(0, len(offsets)-1).Draw(rt, "off")]
			if o+8 <= len(b) {
				binary.LittleEndian.PutUint64(b[o:], c20Numbers[rapid.IntRange(0, len(c20Numbers)-1).Draw(rt, "num")])
			}
		} else if pos+8 <= len(b) {
			binary.LittleEndian.PutUint64(b[pos:], c20Numbers[rapid.IntRange(0, len(c20Numbers)-1).Draw(rt, "num")])
		}
	case "idswap":
		// make one node reference another (or itself, or an ancestor, or a node of another kind): the
		// stream stays well-formed, only the graph it describes changes
		ti := rapid.IntRange(0, len(ids)-1).Draw(rt, "id_to")
		fi := rapid.IntRange(0, len(ids)-1).Draw(rt, "id_from")
		if ti > 0 && rapid.Bool().Draw(rt, "id_near") {
			// an identifier stored shortly before: most likely the node's own (a record starts with it)
			back := rapid.IntRange(1, 6).Draw(rt, "id_back")
			if back > ti {
				back = ti
			}
			fi = ti - back
		}
		from, to := ids[fi], ids[ti]
		copy(b[to:to+36], append([]byte{}, b[from:from+36]...))
	case "innerlength":
		// a length stored inside a length-prefixed blob (the value bytes of a string constant)
		o := inner[rapid.IntRange(0, len(inner)-1).Draw(rt, "inner_off")]
		binary.LittleEndian.PutUint64(b[o:], c20Numbers[rapid.IntRange(0, len(c20Numbers)-1).Draw(rt, "num")])
	case "repeat":
		n := rapid.IntRange(1, 32).Draw(rt, "blen")
		if pos+n > len(b) {
			n = len(b) - pos
		}
		times := rapid.IntRange(2, 24).Draw(rt, "times")
		rep := bytes.Repeat(b[pos:pos+n], times)
		b = append(b[:pos], append(rep, b[pos+n:]...)...)
	}
	if len(b) > c20MaxInputLen {
		b = b[:c20MaxInputLen]
	}
	return b, kind
}

// c20IDs finds the offsets of the node identifiers (36-character UUID texts) in a binary image.
func c20IDs(b []byte) []int {
	var out []int
	isHex := func(c byte) bool { return (c >= '0' && c <= '9') || (c >= 'a' && c <= 'f') }
	for o := 0; o+36 <= len(b) && len(out) < 4096; o++ {
		ok := true
		for i := 0; i < 36 && ok; i++ {
			c := b[o+i]
			if i == 8 || i == 13 || i == 18 || i == 23 {
				ok = c == '-'
			} else {
				ok = isHex(c)
			}
		}
		if ok {
			out = append(out, o)
			o += 35
		}
	}
	return out
}

// c20InnerLengths finds nested length fields: an 8-byte little-endian n followed by an 8-byte n-8
// (a length-prefixed blob that starts with the length of its own payload).
func c20InnerLengths(b []byte) []int {
	var out []int
	for o := 0; o+16 <= len(b) && len(out) < 4096; o++ {
		n := binary.LittleEndian.Uint64(b[o:])
		if n >= 8 && n < 1<<20 && binary.LittleEndian.Uint64(b[o+8:]) == n-8 && o+8+int(n) <= len(b) {
			out = append(out, o+8)
		}
	}
	return out
}

func c20GRBStream(rt *rapid.T, paths []gen.PathInfo) ([]byte, []int) {
	text := c17Doc(rt, paths, "")
	switch rapid.IntRange(0, 5).Draw(rt, "grb_special") {
	case 0:
		// rules that mention no fact at all (the stored index sections are empty)
		text = `rule V1 "no variable" salience 2 { when true then Retract("V1"); }` + "\n" + `rule V2 { when 1 + 2 > 2 && "a" == "a" then Log("x"); Complete(); }`
	case 1:
		text = `rule V0 { when Now().Year() > 2000 then Retract("V0"); }`
	}
	lib, err := obs.Build(text)
	if err != nil {
		lib, _ = obs.Build("rule A { when F.I64 > 1 then F.I64 = 0; }")
	}
	var buf bytes.Buffer
	if err := storeKB(lib, &buf); err != nil {
		return nil, nil
	}
	B := buf.Bytes()
	br := &boundaryReader{r: bytes.NewReader(B), offsets: map[int]bool{}}
	l2 := ast.NewKnowledgeLibrary()
	func() {
		defer func() { _ = recover() }()
		_, _ = l2.LoadKnowledgeBaseFromReader(br, true)
	}()
	var offs []int
	for o := range br.offsets {
		offs = append(offs, o)
	}
	return B, offs
}

func c20RepeatTokens(rt *rapid.T, data []byte) []byte {
	r := []rune(string(data))
	toks, _ := recog.Lex(string(data), false)
	if len(toks) < 2 {
		return data
	}
	i := rapid.IntRange(0, len(toks)-1).Draw(rt, "span_from")
	n := rapid.IntRange(1, 4).Draw(rt, "span_len")
	if i+n > len(toks) {
		n = len(toks) - i
	}
	from, to := toks[i].Start, toks[i+n-1].End
	if from < 0 || to > len(r) || from >= to {
		return data
	}
	times := rapid.IntRange(2, 30).Draw(rt, "span_times")
	out := string(r[:to]) + strings.Repeat(string(r[from:to]), times-1) + string(r[to:])
	if len(out) > c20MaxInputLen {
		out = out[:c20MaxInputLen]
	}
	return []byte(out)
}

// c20StringForms are string literals as a rule author may write them; not all of them are valid.
var c20StringForms = []string{`"a""b"`, `'it''s'`, `"say ""hi"""`, `""""`, `''''`, `"a" "b"`, `"\d+"`, `"\"`, `"a\"`, `"\\\"`, `'\''`, `"\u12"`, `"\x"`, `"\xZZ"`, `"\777"`,
	`"\U0011FFFF"`, `"'"`, `'"'`, `"a'b'c"`, `'a"b"c'`, `"a\"b"`, `"tab\t"`, `"nl\n"`, `""`, `''`, `"x`, `'x`, `x"`, "\"a\nb\"", "\"\x00\"", `"é"`, "\"\xff\"", `"""`, `'''`, `"\'"`, `'\"'`}

func c20Structure(rt *rapid.T, target int) []byte {
	n := rapid.IntRange(1, 30).Draw(rt, "struct_n") // chains stay below the open finding's signature
	switch target {
	case c20GRL:
		switch rapid.IntRange(0, 14).Draw(rt, "struct_kind") {
		case 14:
			// a complete rule in which exactly one part (drawn) is left out, with drawn separators between the parts
			sep := func(label string) string {
				return rapid.SampledFrom([]string{" ", " ", "\n", " // c\n", " /* c */ ", "\t", " \x01 ", ""}).Draw(rt, label)
			}
			parts := []string{"rule", "R", `"d"`, "salience 1", "{", "when", "F.A == 1", "then", "F.B = 2;", "}"}
			parts[rapid.IntRange(0, len(parts)-1).Draw(rt, "left_out_part")] = ""
			var b strings.Builder
			for i, p := range parts {
				b.WriteString(p + sep(fmt.Sprintf("s%d", i)))
			}
			return []byte(b.String())
		case 13:
			// string literals in every lexical form the grammar admits or nearly admits (doubled quotes, escapes the
			// decoder does not know, a backslash at the end, adjacent literals), at every place a literal may stand
			lit := func(label string) string {
				return rapid.SampledFrom(c20StringForms).Draw(rt, label)
			}
			switch rapid.IntRange(0, 4).Draw(rt, "literal_place") {
			case 0:
				return []byte("rule D { when F.S == " + lit("l1") + " then Retract(\"D\"); }")
			case 1:
				return []byte("rule D { when F.S.In(" + lit("l1") + ", " + lit("l2") + ") then F.S = " + lit("l3") + "; }")
			case 2:
				return []byte("rule D " + lit("l1") + " salience 1 { when true then F.S = " + lit("l2") + " + " + lit("l3") + "; }")
			case 3:
				return []byte("rule D { when F.M[" + lit("l1") + "] == 1 && " + lit("l2") + ".Len() > 0 then F.M[" + lit("l3") + "] = 2; Retract(" + lit("l4") + "); }")
			default:
				return []byte("rule D { when " + lit("l1") + " then " + lit("l2") + "; }")
			}
		case 11:
			// very many lexical / syntax errors on one long line
			unit := rapid.SampledFrom([]string{"# @ $ ~ ", ": ", "\" ", "} { ", "rule ", "1e ", "0x "}).Draw(rt, "error_unit")
			return []byte(strings.Repeat(unit, n*1000/len(unit)))
		case 12:
			// a minified JSON rule set on one line, handed to the GRL loader as it is
			var parts []string
			for i := 0; i < n*6; i++ {
				parts = append(parts, fmt.Sprintf(`{"name":"R%d","desc":"d","salience":3,"when":{"and":[{"eq":[{"obj":"F.B"},{"const":true}]},{"lt":["F.I64",10]}]},"then":[{"set":["F.I64",{"plus":["F.I64",1]}]}]}`, i))
			}
			return []byte("[" + strings.Join(parts, ",") + "]")
		case 9, 10:
			// a rule skeleton in which every part may be empty, with drawn separators (blank, line break,
			// comments, nothing) between the parts
			sep := func(label string) string {
				return rapid.SampledFrom([]string{" ", "", "\n", " // c\n", " /* c */ ", "\t", " \x01 "}).Draw(rt, label)
			}
			part := func(label string, full ...string) string {
				return rapid.SampledFrom(append([]string{""}, full...)).Draw(rt, label)
			}
			var b strings.Builder
			for i, k := 0, rapid.IntRange(1, 2).Draw(rt, "skeleton_rules"); i < k; i++ {
				b.WriteString(part("sk_rule", "rule", "RULE") + sep("s1") + part("sk_name", "R", "R2", "then") + sep("s2") + part("sk_desc", `"d"`, "'d'") + sep("s3") +
					part("sk_sal", "salience 1", "salience", "salience -") + sep("s4") + part("sk_lb", "{", "{") + sep("s5") +
					part("sk_when", "when", "when", "When") + sep("s6") + part("sk_cond", "F.A == 1", "true", "F.A ==", "(", "F.A == 1 &&") + sep("s7") +
					part("sk_then", "then", "then", "THEN") + sep("s8") + part("sk_acts", "F.B = 2;", "F.B = 2", ";", "F.B = ;", "Retract(\"R\");", "F.B = 2; F.C = 3;") + sep("s9") +
					part("sk_rb", "}", "}", "}}") + sep("s10"))
			}
			return []byte(b.String())
		case 5:
			// selectors chained on a call result
			return []byte("rule D { when F.M()" + strings.Repeat("[0]", n) + " == 1 then Retract(\"D\"); }")
		case 6:
			return []byte("rule D { when F.M()" + strings.Repeat(".A", n) + " == 1 then Retract(\"D\"); }")
		case 7:
			return []byte("rule D { when F.M()" + strings.Repeat(".N(1)", n) + " == 1 then F.K = \"x\"" + strings.Repeat(".Trim()", n) + "; }")
		case 8:
			return []byte("rule D { when F.M()" + strings.Repeat("[\"k\"].A", n/2+1) + " == 1 then Retract(\"D\"); }")
		case 0:
			return []byte("rule D { when " + strings.Repeat("(", n) + "true" + strings.Repeat(")", n) + " then Retract(\"D\"); }")
		case 1:
			return []byte("rule D { when F.X" + strings.Repeat(" + F.X", n) + " > 1 then Retract(\"D\"); }")
		case 2:
			return []byte("rule D { when F" + strings.Repeat(".A", n) + " then Retract(\"D\"); }")
		case 3:
			return []byte("rule D { when " + strings.Repeat("!", n) + "F.B then Retract(\"D\"); }")
		default:
			var b strings.Builder
			for i := 0; i < n*8; i++ {
				fmt.Fprintf(&b, "rule D%d { when F.I64 > %d then F.I64 = %d; }\n", i, i, i)
			}
			return []byte(b.String())
		}
	case c20JSONRule:
		switch rapid.IntRange(0, 6).Draw(rt, "struct_kind") {
		case 6:
			// raw condition / action strings carrying string literals of every lexical form
			doc := map[string]interface{}{"name": "D", "when": "F.S == " + rapid.SampledFrom(c20StringForms).Draw(rt, "l1"),
				"then": []interface{}{"F.S = " + rapid.SampledFrom(c20StringForms).Draw(rt, "l2"), map[string]interface{}{"set": []interface{}{"F.S", map[string]interface{}{"const": rapid.SampledFrom(c20StringForms).Draw(rt, "l3")}}}}}
			if b, err := json.Marshal(doc); err == nil {
				return b
			}
			return []byte(`{}`)
		case 4:
			// a null where a value is expected
			return []byte(rapid.SampledFrom([]string{`[null]`, `null`, `[{"name":"A","when":"true","then":["F.I64 = 1"]},null]`, `{"name":null,"when":null,"then":null}`,
				`{"name":"R","when":{"eq":null},"then":[null]}`, `{"name":"R","when":{"and":[null,null]},"then":[{"set":null}]}`, `[[null]]`, `{"name":"R","when":{"eq":[null,{"const":null}]},"then":[{"call":[null]}]}`}).Draw(rt, "null_doc"))
		case 5:
			// a valid rule in which one value (drawn) is replaced by null
			var doc interface{}
			if json.Unmarshal([]byte(`[{"name":"R","desc":"d","salience":3,"when":{"and":[{"eq":[{"obj":"F.B"},{"const":true}]},{"lt":["F.I64",10]}]},"then":[{"set":["F.I64",{"plus":["F.I64",1]}]},{"call":["Log",{"const":"x"}]},"F.I64 = 2"]}]`), &doc) == nil {
				target := rapid.IntRange(0, 30).Draw(rt, "null_at")
				count := 0
				var walk func(x interface{}) interface{}
				walk = func(x interface{}) interface{} {
					if count == target {
						count++
						return nil
					}
					count++
					switch v := x.(type) {
					case []interface{}:
						for i := range v {
							v[i] = walk(v[i])
						}
					case map[string]interface{}:
						keys := make([]string, 0, len(v))
						for k := range v {
							keys = append(keys, k)
						}
						sort.Strings(keys)
						for _, k := range keys {
							v[k] = walk(v[k])
						}
					}
					return x
				}
				doc = walk(doc)
				if b, err := json.Marshal(doc); err == nil {
					return b
				}
			}
			return []byte(`[null]`)
		case 0:
			s := `{"obj":"F.B"}`
			for i := 0; i < n; i++ {
				s = `{"and":[` + s + `,{"obj":"F.B2"}]}`
			}
			return []byte(`{"name":"D","when":` + s + `,"then":["Retract(\"D\")"]}`)
		case 1:
			return []byte(`{"name":"D","when":` + strings.Repeat(`{"not":[`, n*40) + `1` + strings.Repeat(`]}`, n*40) + `,"then":["x"]}`)
		case 2:
			return []byte(`[` + strings.Repeat(`{"name":"D","when":"true","then":["Retract(\"D\")"]},`, n) + `{"name":"E","when":"true","then":["F.I64 = 1"]}]`)
		default:
			// arithmetic / comparison operators nested in each other, on the left and on the right
			ops := []string{"plus", "minus", "mul", "eq", "gt", "band"}
			s := `"F.I64"`
			for i := 0; i < n*2; i++ {
				op := ops[i%len(ops)]
				if i%2 == 0 {
					s = `{"` + op + `":[` + s + `,1]}`
				} else {
					s = `{"` + op + `":[2,` + s + `]}`
				}
			}
			return []byte(`{"name":"D","when":{"gt":[` + s + `,0]},"then":[{"set":["F.I64",` + s + `]}]}`)
		}
	case c20JSONFact:
		switch rapid.IntRange(0, 3).Draw(rt, "struct_kind") {
		case 0:
			return []byte(strings.Repeat("[", n*300) + strings.Repeat("]", n*300))
		case 1:
			return []byte(strings.Repeat(`{"a":`, n*300) + "1" + strings.Repeat("}", n*300))
		case 2:
			return []byte(`{"n":1` + strings.Repeat("0", n*100) + `,"f":1e` + strings.Repeat("9", n) + `}`)
		default:
			return []byte(`{"s":"` + strings.Repeat(`é`, n*100) + `"}`)
		}
	}
	return nil
}

func c20GenInput(rt *rapid.T, paths []gen.PathInfo, stCfg gen.StateCfg) c20Input {
	in := c20GenInput0(rt, paths, stCfg)
	if in.Target == c20JSONRule && rapid.Bool().Draw(rt, "translate_only") {
		in.Target = c20JSONTranslate
	}
	return in
}

func c20GenInput0(rt *rapid.T, paths []gen.PathInfo, stCfg gen.StateCfg) c20Input {
	target := rapid.IntRange(0, 3).Draw(rt, "target")
	mode := rapid.SampledFrom([]string{"random", "valid", "mutant", "mutant", "mutant", "structure", "structure"}).Draw(rt, "mode")
	in := c20Input{Target: target}
	if mode == "random" {
		n := rapid.IntRange(0, 64).Draw(rt, "rnd_len")
		b := make([]byte, n)
		for i := range b {
			b[i] = byte(rapid.IntRange(0, 255).Draw(rt, "rnd"))
		}
		in.Data, in.Kind = b, "random_bytes"
		return in
	}
	if mode == "structure" && target != c20GRB {
		in.Data, in.Kind = c20Structure(rt, target), "structure"
		return in
	}
	if mode == "structure" {
		// graph surgery on a binary image: the stream stays well-formed, 1-3 node references are redirected
		// (to the node itself or a node stored shortly before - cycles -, or to any other node)
		img, _ := c20GRBStream(rt, paths)
		b := append([]byte{}, img...)
		if ids := c20IDs(b); len(ids) >= 2 {
			for i, n := 0, rapid.IntRange(1, 3).Draw(rt, "nswaps"); i < n; i++ {
				ti := rapid.IntRange(1, len(ids)-1).Draw(rt, "swap_to")
				fi := rapid.IntRange(0, len(ids)-1).Draw(rt, "swap_from")
				if rapid.IntRange(0, 3).Draw(rt, "swap_near") > 0 {
					back := rapid.IntRange(1, 6).Draw(rt, "swap_back")
					if back > ti {
						back = ti
					}
					fi = ti - back
				}
				copy(b[ids[ti]:ids[ti]+36], append([]byte{}, b[ids[fi]:ids[fi]+36]...))
			}
		}
		in.Data, in.Kind = b, "structure"
		return in
	}
	var valid, other []byte
	var offsets []int
	switch target {
	case c20GRL:
		valid = []byte(c17Doc(rt, paths, ""))
		other = []byte("rule Z { when F.B then F.I64 = 1; }")
	case c20JSONRule:
		valid = c20ValidJSONRule(rt, paths)
		other = []byte(`{"name":"Z","when":{"eq":["F.B",true]},"then":["F.I64 = 1"]}`)
	case c20JSONFact:
		st := gen.SeededState(rapid.Uint64Range(0, 1000).Draw(rt, "fact_seed"), stCfg)
		valid = facts.MarshalJSONDoc(st.JSON["J"])
		other = []byte(`{"a":[1,2,{"b":null}],"c":"x"}`)
	case c20GRB:
		valid, offsets = c20GRBStream(rt, paths)
		other = valid
	}
	if mode == "valid" {
		in.Data, in.Kind = valid, "valid"
		if target == c20GRB && rapid.Bool().Draw(rt, "hand_over") {
			// the loaded knowledge base is handed on to the GRL loader (valid streams only: what a corrupted
			// but accepted stream does later is not this property's business)
			in.Target = c20GRBThenGRL
		}
		return in
	}
	data := valid
	var kinds []string
	for i := 0; i < rapid.IntRange(1, 3).Draw(rt, "nmut"); i++ {
		var k string
		if (target == c20GRL) && rapid.IntRange(0, 3).Draw(rt, "token_repeat") == 0 {
			// a span of 1-4 tokens repeated in place 2-30 times: whatever construct the span happens to be
			// (a selector, a member, a call, an operator and its operand, a parenthesis) becomes a chain
			data, k = c20RepeatTokens(rt, data), "token_span_repeated"
		} else if (target == c20GRL) && rapid.Bool().Draw(rt, "token_level") {
			var t string
			t, k = c17Mutate(rt, string(data))
			data = []byte(t)
		} else {
			data, k = c20MutateBytes(rt, data, other, offsets)
		}
		kinds = append(kinds, k)
	}
	in.Data, in.Kind = data, "mutant:"+strings.Join(kinds, "+")
	return in
}

func c20ValidJSONRule(rt *rapid.T, paths []gen.PathInfo) []byte {
	g := gen.NewXG(rt, gen.ExprCfg{Paths: paths, Recv: "F", Hostile: true, StrFuncs: true, NoPtrNum: true})
	cond := g.Bool(rapid.IntRange(1, 3).Draw(rt, "jr_depth"))
	conv := &c18Conv{rt: rt, notOpen: false, features: map[string]int{}}
	e, _ := g.Int(1)
	jr := map[string]interface{}{"name": "JR", "desc": "d", "salience": rapid.IntRange(-3, 3).Draw(rt, "jr_sal"), "when": conv.when(cond),
		"then": []interface{}{conv.then(&gast.Assign{LHS: gast.P("F", "I64"), Op: "=", RHS: g.NoBarePtr(e, false)}), "Retract(\"JR\")"}}
	b, _ := json.Marshal(jr)
	return b
}

func c20Describe(in c20Input) c20Replay {
	r := c20Replay{Target: c20TargetName[in.Target], Kind: in.Kind, Base64: base64.StdEncoding.EncodeToString(in.Data)}
	if in.Target != c20GRB && len(in.Data) < 4000 {
		r.Text = string(in.Data)
	}
	return r
}

func TestC20(t *testing.T) {
	col := stats.New("C20", "the loaders - BuildRuleFromResource (GRL bytes), JSONResource.Load + build (JSON rule bytes), DataContext.AddJSON (JSON fact bytes), LoadKnowledgeBaseFromReader (binary stream; half of the valid streams are then handed on to the GRL loader and to NewKnowledgeBaseInstance, which must not panic either) - are fed generated inputs: random bytes; valid inputs produced by the other checks' generators (grammar-rich GRL documents, JSON rules converted from typed trees, JSON fact documents, stored binary images of built knowledge bases); 1-3 structure-aware mutations of those (bit flips, boundary bytes, deletion, duplication, repetition, insertion, truncation, splicing, 8-byte boundary numbers, length-field edits at the binary format's field boundaries taken from the loader's own Read calls, edits of nested length fields (a length stored inside a length-prefixed blob), node-identifier swaps (a well-formed stream whose node references form cycles, dangle or name a node of another kind), token-level GRL mutations); and structural inputs (nesting, long flat chains, many rules, deep JSON). Every input is executed in a child process built from the current tree with an address-space limit of 3 GiB; the parent knows the culprit when the child dies or exceeds the hang guard. Oracle per input: no panic escapes the loader, the process survives, TotalAlloc grows by at most 64 MiB + 256 KiB per input byte - 64 MiB + 8 KiB per input byte for inputs without a chain of 8 or more - (deterministic), wall time <= 20 s (three orders of magnitude above normal; hang guard only). Structural inputs include string literals of 36 lexical forms (doubled quotes, unknown or truncated escapes, trailing backslash, adjacent or unterminated literals) at every place a literal may stand, in GRL and inside JSON rules. An enumerated corpus of structural inputs (a complete rule with each of its ten parts left out under eight separators, each string literal form at five places of a GRL rule and inside a JSON rule, very many errors on one long line) is run in every run, divided among the shards. Non-trivial: the loader got past its first validation step (returned success, or an error after structural parsing: GRL/JSON inputs that lex, binary streams with a valid version header). Distinct by input bytes.",
		"inputs whose longest operator/selector/parenthesis chain in one statement is >= 64 belong to the open finding about cubic build cost; generated chains stay <= 32 and are counted when a mutation exceeds the signature",
		"time is not used as a correctness signal below the 20 s hang guard")
	defer col.Flush()
	stCfg := gen.StateCfg{D: gen.Small, JSON: true, Top: true}
	paths := gen.AllPaths(stCfg)
	check(t, 0, budget(160, 3000), func(rt *rapid.T) {
		n := 24
		ins := make([]c20Input, n)
		for i := range ins {
			ins[i] = c20GenInput(rt, paths, stCfg)
		}
		res, err := c20RunBatch(ins)
		if err != nil {
			rt.Fatalf("harness: %v", err)
		}
		for i, in := range ins {
			r := res[i]
			nt := r.Status == "ok" || (r.Status == "error" && c20PastFirstStep(in))
			v, known := c20Judge(in, r)
			labels := []string{"target:" + c20TargetName[in.Target], "kind:" + strings.SplitN(in.Kind, ":", 2)[0], "status:" + r.Status + r.Detail}
			if r.Died != "" {
				labels = append(labels, "child_died")
			}
			if known {
				labels = append(labels, "excluded_known_cubic_chain")
			}
			col.Case(string(in.Data)+c20TargetName[in.Target], nt, labels...)
			if col.WantSample(nt) {
				d := c20Describe(in)
				col.Sample(map[string]interface{}{"target": d.Target, "kind": d.Kind, "bytes": len(in.Data), "input": truncateStr(d.Text, 300), "status": r.Status, "alloc_bytes": r.Alloc, "ms": r.Dur.Milliseconds()}, nt)
			}
			if v != "" {
				path := col.Violation("C20", "C20/"+c20TargetName[in.Target]+"/"+firstWords(v), v+"\ninput kind: "+in.Kind, c20Describe(in))
				rt.Fatalf("C20 violated: %s (replay %s)", v, path)
			}
		}
	})
	c20Corpus(t, col)
	c20KnownProbes(t, col)
}

// c20Corpus runs an enumerated set of structural inputs in every run (divided among the shards): the shapes are
// the ones the generated search draws from, laid out systematically, so that a loader defect that needs one
// particular shape does not depend on the draw.
func c20Corpus(t *testing.T, col *stats.Collector) {
	var ins []c20Input
	add := func(target int, kind, text string) {
		ins = append(ins, c20Input{Target: target, Kind: "corpus:" + kind, Data: []byte(text)})
	}
	// (1) a complete rule with exactly one part left out, for every part and every separator
	for _, sep := range []string{" ", "\n", " // c\n", " /* c */ ", "\t", " \x01 ", "", "  \n\n"} {
		for out := 0; out < 10; out++ {
			parts := []string{"rule", "R", `"d"`, "salience 1", "{", "when", "F.A == 1", "then", "F.B = 2;", "}"}
			parts[out] = ""
			add(c20GRL, fmt.Sprintf("rule_without_part_%d", out), strings.Join(parts, sep)+sep)
		}
	}
	// (2) every string literal form at every place a literal may stand
	for _, l := range c20StringForms {
		add(c20GRL, "literal_in_comparison", "rule D { when F.S == "+l+" then Retract(\"D\"); }")
		add(c20GRL, "literal_as_argument", "rule D { when F.S.In("+l+", "+l+") then F.S = "+l+"; }")
		add(c20GRL, "literal_as_description", "rule D "+l+" salience 1 { when true then F.S = "+l+" + "+l+"; }")
		add(c20GRL, "literal_as_key", "rule D { when F.M["+l+"] == 1 && "+l+".Len() > 0 then F.M["+l+"] = 2; Retract("+l+"); }")
		add(c20GRL, "literal_alone", "rule D { when "+l+" then "+l+"; }")
		doc := map[string]interface{}{"name": "D", "when": "F.S == " + l, "then": []interface{}{"F.S = " + l, map[string]interface{}{"set": []interface{}{"F.S", map[string]interface{}{"const": l}}}}}
		if b, err := json.Marshal(doc); err == nil {
			add(c20JSONRule, "literal_in_json_rule", string(b))
			add(c20JSONTranslate, "literal_in_json_rule", string(b))
		}
	}
	// (3) very many errors on one long line
	for _, unit := range []string{"# @ $ ~ ", ": ", "\" ", "} { ", "rule ", "1e ", "0x "} {
		for _, n := range []int{5, 15, 30} {
			add(c20GRL, "many_errors_on_one_line", strings.Repeat(unit, n*1000/len(unit)))
		}
	}
	for _, n := range []int{5, 15, 30} {
		var parts []string
		for i := 0; i < n*6; i++ {
			parts = append(parts, fmt.Sprintf(`{"name":"R%d","desc":"d","salience":3,"when":{"and":[{"eq":[{"obj":"F.B"},{"const":true}]},{"lt":["F.I64",10]}]},"then":[{"set":["F.I64",{"plus":["F.I64",1]}]}]}`, i))
		}
		add(c20GRL, "minified_json_as_grl", "["+strings.Join(parts, ",")+"]")
	}
	shard, nshards := 0, 1
	if v, err := strconv.Atoi(os.Getenv("VERIF_SHARD")); err == nil {
		shard = v
	}
	if v, err := strconv.Atoi(os.Getenv("VERIF_NSHARDS")); err == nil && v > 0 {
		nshards = v
	}
	var mine []c20Input
	for i, in := range ins {
		if i%nshards == shard%nshards {
			mine = append(mine, in)
		}
	}
	for from := 0; from < len(mine); from += 24 {
		batch := mine[from:min(from+24, len(mine))]
		res, err := c20RunBatch(batch)
		if err != nil {
			t.Fatalf("harness: %v", err)
		}
		for i, in := range batch {
			r := res[i]
			nt := r.Status == "ok" || (r.Status == "error" && c20PastFirstStep(in))
			col.Case(string(in.Data)+c20TargetName[in.Target], nt, "target:"+c20TargetName[in.Target], "kind:corpus", "status:"+r.Status+r.Detail)
			if v, known := c20Judge(in, r); v != "" && !known {
				path := col.Violation("C20", "C20/"+c20TargetName[in.Target]+"/"+firstWords(v), v+"\ninput kind: "+in.Kind, c20Describe(in))
				t.Errorf("C20 violated: %s (replay %s)", v, path)
				return
			}
		}
	}
}

func truncateStr(s string, n int) string {
	if len(s) > n {
		return s[:n] + "..."
	}
	return s
}

func c20PastFirstStep(in c20Input) bool {
	switch in.Target {
	case c20GRL:
		_, ok := recog.Lex(string(in.Data), false)
		return ok
	case c20JSONRule, c20JSONFact, c20JSONTranslate:
		return json.Valid(in.Data)
	case c20GRB, c20GRBThenGRL:
		return len(in.Data) > 16 && bytes.Contains(in.Data[:min(len(in.Data), 64)], []byte("kb"))
	}
	return false
}

// c20KnownProbes replays the recorded inputs of the open finding about cubic build cost, and the
// inputs of the repaired loader defects as plain regression seeds.
func c20KnownProbes(t *testing.T, col *stats.Collector) {
	seeds := []c20Input{
		{Target: c20GRL, Kind: "seed:salience_out_of_range", Data: []byte("rule R salience 2147483648 { when true then Retract(\"R\"); }")},
		{Target: c20JSONRule, Kind: "seed:empty_json", Data: []byte("")},
		{Target: c20JSONRule, Kind: "seed:blank_json", Data: []byte(" \n")},
		{Target: c20GRB, Kind: "seed:length_2GiB", Data: []byte{0xff, 0xff, 0xff, 0x7f, 0, 0, 0, 0}},
		{Target: c20GRB, Kind: "seed:length_1TiB", Data: []byte{0, 0, 0, 0, 0, 1, 0, 0}},
		{Target: c20GRB, Kind: "seed:length_max", Data: []byte{0xff, 0xff, 0xff, 0xff, 0xff, 0xff, 0xff, 0xff}},
		{Target: c20GRB, Kind: "seed:empty_stream", Data: []byte{}},
		{Target: c20JSONFact, Kind: "seed:deep_array", Data: []byte(strings.Repeat("[", 20000) + strings.Repeat("]", 20000))},
	}
	// a stored knowledge base whose string constant claims a payload of 4 GiB / 1 TiB inside its value bytes
	if img := storedImage(`rule A { when F.S == "hello" then F.I64 = 0; }`); img != nil {
		if inner := c20InnerLengths(img); len(inner) > 0 {
			for _, n := range []uint64{0x100000000, 1 << 40} {
				m := append([]byte{}, img...)
				binary.LittleEndian.PutUint64(m[inner[0]:], n)
				seeds = append(seeds, c20Input{Target: c20GRB, Kind: fmt.Sprintf("seed:string_constant_inner_length_%d", n), Data: m})
			}
		}
	}
	res, err := c20RunBatch(seeds)
	if err != nil {
		t.Fatalf("harness: %v", err)
	}
	for i, in := range seeds {
		col.Case(in.Kind, false, "regression_seed")
		if v, _ := c20Judge(in, res[i]); v != "" {
			path := col.Violation("C20", "C20/"+in.Kind, v, c20Describe(in))
			t.Errorf("C20 violated: %s (replay %s)", v, path)
		}
	}
	// the open finding: cost cubic in chain length
	probes := []c20Input{
		{Target: c20GRL, Kind: "probe:flat_sum_400", Data: []byte("rule D { when F.X" + strings.Repeat(" + F.X", 400) + " > 1 then Retract(\"D\"); }")},
		{Target: c20GRL, Kind: "probe:path_300", Data: []byte("rule D { when F" + strings.Repeat(".A", 300) + " then Retract(\"D\"); }")},
	}
	pres, err := c20RunBatch(probes)
	if err != nil {
		t.Fatalf("harness: %v", err)
	}
	for i, in := range probes {
		r := pres[i]
		limit := uint64(c20AllocBase) + uint64(c20AllocPerB)*uint64(len(in.Data))
		exceeded := r.Died != "" || r.Alloc > limit
		if exceeded {
			what := r.Died
			if what == "" {
				what = fmt.Sprintf("%d MiB allocated for %d input bytes (bound %d MiB)", r.Alloc>>20, len(in.Data), limit>>20)
			}
			if stats.IsOpen("C20", "cubic-build-cost") {
				col.Known("C20", "cubic-build-cost", fmt.Sprintf("%s: %s", in.Kind, what))
			} else {
				path := col.Violation("C20", "C20/cubic-build-cost", in.Kind+": "+what, c20Describe(in))
				t.Errorf("C20 violated: %s (replay %s)", what, path)
			}
		}
	}
}

func init() {
	replayers["C20"] = func(raw json.RawMessage) error {
		var r c20Replay
		if err := json.Unmarshal(raw, &r); err != nil {
			return err
		}
		data, err := base64.StdEncoding.DecodeString(r.Base64)
		if err != nil {
			return err
		}
		target := 0
		for i, n := range c20TargetName {
			if n == r.Target {
				target = i
			}
		}
		in := c20Input{Target: target, Kind: r.Kind, Data: data}
		res, err := c20RunBatch([]c20Input{in})
		if err != nil {
			return err
		}
		if v, _ := c20Judge(in, res[0]); v != "" {
			return fmt.Errorf("%s", v)
		}
		return nil
	}
}

// c20InProcess runs one loader in this process (native fuzz targets; the sandboxed child is used
// by the main search).
func c20InProcess(target int, data []byte) (status, detail string) {
	defer func() {
		if r := recover(); r != nil {
			status = "panic"
			detail = strings.ReplaceAll(fmt.Sprint(r), "\n", " ")
			if len(detail) > 200 {
				detail = detail[:200]
			}
		}
	}()
	switch target {
	case c20GRL:
		lib := ast.NewKnowledgeLibrary()
		if err := builder.NewRuleBuilder(lib).BuildRuleFromResource("c", "1", pkg.NewBytesResource(data)); err != nil {
			return "error", "build"
		}
		return "ok", ""
	case c20JSONRule:
		res, err := pkg.NewJSONResourceFromResource(pkg.NewBytesResource(data))
		if err != nil {
			return "error", "resource"
		}
		lib := ast.NewKnowledgeLibrary()
		if err := builder.NewRuleBuilder(lib).BuildRuleFromResource("c", "1", res); err != nil {
			return "error", "json-or-build"
		}
		return "ok", ""
	case c20JSONTranslate:
		res, err := pkg.NewJSONResourceFromResource(pkg.NewBytesResource(data))
		if err != nil {
			return "error", "resource"
		}
		if _, err := res.Load(); err != nil {
			return "error", "json"
		}
		return "ok", ""
	case c20JSONFact:
		if err := ast.NewDataContext().AddJSON("J", data); err != nil {
			return "error", "json"
		}
		return "ok", ""
	case c20GRB:
		lib := ast.NewKnowledgeLibrary()
		if _, err := lib.LoadKnowledgeBaseFromReader(bytes.NewReader(data), true); err != nil {
			return "error", "load"
		}
		return "ok", ""
	case c20GRBThenGRL:
		lib := ast.NewKnowledgeLibrary()
		kb, err := lib.LoadKnowledgeBaseFromReader(bytes.NewReader(data), true)
		if err != nil {
			return "error", "load"
		}
		if err := builder.NewRuleBuilder(lib).BuildRuleFromResource(kb.Name, kb.Version, pkg.NewBytesResource([]byte(c20HandOverRule))); err != nil {
			return "error", "build-after-load"
		}
		if _, err := lib.NewKnowledgeBaseInstance(kb.Name, kb.Version); err != nil {
			return "error", "instance-after-load"
		}
		return "ok", ""
	}
	return "error", "unknown target"
}

// storedImage returns the binary image of a knowledge base built from text.
func storedImage(text string) []byte {
	lib, err := obs.Build(text)
	if err != nil {
		return nil
	}
	var buf bytes.Buffer
	if err := storeKB(lib, &buf); err != nil {
		return nil
	}
	return buf.Bytes()
}
