package props

import (
	"encoding/json"
	"flag"
	"fmt"
	"strings"
	"testing"

	"github.com/hyperjumptech/grule-rule-engine/ast"
	"pgregory.net/rapid"

	"verif/internal/facts"
	"verif/internal/gast"
	"verif/internal/gen"
	"verif/internal/obs"
	"verif/internal/ref"
	"verif/internal/stats"
	"verif/internal/val"
)

// C08: reusing a knowledge-base instance behaves like using a fresh one.

type c08Step struct {
	Op        string       `json:"op"`
	Init      *facts.State `json:"facts"`
	MaxCycle  uint64       `json:"max_cycle"`
	ErrOnFail bool         `json:"err_on_fail"`
	FailAt    int          `json:"probe_fail_at,omitempty"`
	FailMode  int          `json:"probe_fail_mode,omitempty"`
}

type c08Case struct {
	Rules       []interface{}     `json:"rules"`
	Text        string            `json:"text"`
	SoloTexts   map[string]string `json:"solo_texts"`
	Steps       []c08Step         `json:"history"`
	RemovedText string            `json:"rule_built_and_removed_again,omitempty"`
	RemovedName string            `json:"removed_rule_name,omitempty"`
	RemovedVia  string            `json:"removed_through,omitempty"`
}

var c08Clauses = []string{"C01", "C02", "C03", "C04", "C06", "C10", "C14", "C16"}

func clauseViolations(rep *val.Report) []string {
	var v []string
	for _, p := range c08Clauses {
		for _, m := range rep.Of(p) {
			v = append(v, "["+p+"-clause] "+m)
		}
	}
	return v
}

// c08Apply performs one step on the reused instance and returns C08 violations plus a summary.
func c08Apply(base *val.Case, prep *val.Prepared, kb *ast.KnowledgeBase, st c08Step) (v []string, abnormal bool, retracted bool, summary string) {
	c := *base
	c.Init = st.Init
	c.MaxCycle = st.MaxCycle
	c.ErrOnFail = st.ErrOnFail
	c.ProbeFailAt, c.ProbeMode = st.FailAt, facts.FailMode(st.FailMode)
	c.UseContext = st.Op == "execCtx"
	if st.Op == "fetch" {
		fv, info, err := c11RunOn(&c, prep, kb, nil, nil)
		if err != nil {
			return []string{"harness: " + err.Error()}, false, false, "fetch"
		}
		if len(fv) > 0 {
			// is it the reuse? ask a fresh instance
			fresh, ferr := obs.Instance(prep.Lib)
			if ferr == nil {
				val.ApplyRemoved(&c, fresh)
				if fv2, _, _ := c11RunOn(&c, prep, fresh, nil, nil); len(fv2) == 0 {
					for _, m := range fv {
						v = append(v, "FetchMatchingRules on the reused instance: "+m)
					}
				}
			}
		}
		return v, false, false, fmt.Sprintf("fetch -> %v", info["returned"])
	}
	var rep *val.Report
	reps := repsFor()
	if reps > 6 {
		reps = 6
	}
	rep = val.RunOn(&c, prep, kb)
	cv := clauseViolations(rep)
	if c.ProbeFailAt > 0 && c.ProbeMode != facts.FailCancel {
		cv = c14CheckFault(&c, rep)
	}
	abnormal = rep.EndedBy == "error" || rep.EndedBy == "cyclelimit" || rep.EndedBy == "panic" || rep.EndedBy == "complete"
	retracted = len(rep.Retracted) > 0
	summary = fmt.Sprintf("%s maxcycle=%d fault=%d/%d -> %s fired=%v", st.Op, st.MaxCycle, st.FailAt, st.FailMode, rep.EndedBy, rep.Fired)
	if rep.Excluded != "" {
		return nil, abnormal, retracted, summary + " (excluded)"
	}
	// the same call on a brand-new instance
	var fresh *val.Report
	for i := 0; i < reps; i++ {
		fresh = val.Run(&c, prep)
		fv := clauseViolations(fresh)
		if c.ProbeFailAt > 0 && c.ProbeMode != facts.FailCancel {
			fv = c14CheckFault(&c, fresh)
		}
		if len(fv) > 0 {
			// not a reuse problem: the fresh instance misbehaves as well (another property's business)
			return nil, abnormal, retracted, summary + " (fresh instance also violates)"
		}
	}
	for _, m := range cv {
		v = append(v, "call on the reused instance: "+m)
	}
	if c.ProbeFailAt == 0 && fresh.Excluded == "" {
		// deterministic call (pairwise distinct saliences): same firings, same result class, same final facts
		if strings.Join(rep.Fired, ",") != strings.Join(fresh.Fired, ",") {
			v = append(v, fmt.Sprintf("the reused instance fired %v, a new instance fires %v", rep.Fired, fresh.Fired))
		}
		if rep.EndedBy != fresh.EndedBy {
			v = append(v, fmt.Sprintf("the call on the reused instance ended by %s (%v), on a new instance by %s (%v)", rep.EndedBy, rep.Err, fresh.EndedBy, fresh.Err))
		}
		if d := facts.Diff(fresh.Final, rep.Final); len(d) > 0 {
			if len(d) > 5 {
				d = d[:5]
			}
			v = append(v, "final facts differ from those of the same call on a new instance: "+strings.Join(d, "; "))
		}
	}
	return v, abnormal, retracted, summary
}

func c08GenState(rt *rapid.T, rs *gen.RuleSet, cfg gen.StateCfg) *facts.State {
	st := gen.SeededState(rapid.Uint64Range(0, 1<<16).Draw(rt, "state_seed"), cfg)
	for _, h := range rs.Hot {
		if h.T == gast.TTime {
			continue
		}
		lit := gen.DrawLiteralFor(gen.R{T: rt}, h, gen.Small, "init:"+h.Text)
		if err := ref.New(st).Exec(&gast.Assign{LHS: h.Mk(), Op: "=", RHS: lit}); err != nil {
			rt.Fatalf("harness: init of %s failed: %v", h.Text, err)
		}
	}
	return st
}

func TestC08(t *testing.T) {
	col := stats.New("C08", "stateful (model-based) generation: one knowledge-base instance of a generated rule set (pairwise distinct saliences; Retract, Complete, probes and counted action statements) receives a drawn history of up to 8 calls - Execute to quiescence or Complete, Execute with MaxCycle 1-2 (cycle limit), Execute with the k-th probe invocation panicking (action error, possibly after a Retract), ExecuteWithContext cancelled from inside the k-th probe invocation, ExecuteWithContext with a live context, FetchMatchingRules - each with its own freshly generated facts and data context. Oracle per call: the trace of the call on the reused instance is validated from a fresh model (nothing retracted, nothing remembered, not complete: fresh single-rule truth of every evaluation, every rule evaluated, conflict resolution, per-firing reference replay), FetchMatchingRules must return exactly the fresh-true rules, and for calls without injected fault the firing sequence, result class and final facts must equal those of the same call on a brand-new instance. A clause that also fails on the new instance is not attributed to reuse. A quarter of the calls leave the JSON fact and/or some top-level variables out of their data context. Non-trivial: a call at position >= 2 of a history in which an earlier call retracted a rule or ended abnormally (Complete, error, cycle limit, cancellation), or which lacks a fact an earlier call supplied. Distinct by rule text + history.")
	defer col.Flush()
	_ = flag.Set("rapid.steps", "8")
	rc := fullRuleCfg()
	rc.Forget = false
	rc.DistinctSalience = true
	rc.Probes, rc.Marks = true, true
	rc.MinRules, rc.MaxRules = 2, 5
	rc.ExprDepth = 2
	cfg := rsGenCfg{Rules: rc, Vary: true, RemovedSibling: true}
	check(t, 0, budget(800, 10000), func(rt *rapid.T) {
		base, rs := genRSCase(rt, cfg)
		// a quarter of the rule sets have a rule whose condition is (or starts with) a bare top-level variable
		// whose kind differs from call to call: a boolean in one call, a string or a number in another
		varKind := rapid.IntRange(0, 3).Draw(rt, "condition_of_varying_kind") == 0
		if varKind {
			r := base.Rules[rapid.IntRange(0, len(base.Rules)-1).Draw(rt, "varying_rule")]
			if rapid.Bool().Draw(rt, "varying_alone") {
				r.When = gast.P("TV")
			} else {
				r.When = &gast.Bin{Op: gast.OpAnd, L: gast.P("TV"), R: &gast.Paren{X: r.When}}
			}
			c14Rerender(base)
			rs.Feat["condition_whose_kind_depends_on_the_facts"]++
		}
		drawTV := func(rt *rapid.T, st *facts.State) {
			if varKind {
				st.Top["TV"] = rapid.SampledFrom([]interface{}{true, true, false, "yes", int64(3)}).Draw(rt, "TV")
			}
		}
		drawTV(rt, base.Init)
		prep, err := val.Prepare(base)
		if err != nil {
			rt.Fatalf("harness: %v\n%s", err, base.Text)
		}
		kb, err := obs.Instance(prep.Lib)
		if err != nil {
			rt.Fatalf("harness: %v", err)
		}
		val.ApplyRemoved(base, kb)
		hist := &c08Case{Rules: gast.EncodeRules(base.Rules), Text: base.Text, SoloTexts: base.SoloTexts, RemovedText: base.RemovedText, RemovedName: base.RemovedName, RemovedVia: base.RemovedVia}
		earlierAbnormal, earlierRetract, earlierFull := false, false, false
		var summaries []string
		step := func(op string) func(*rapid.T) {
			return func(rt *rapid.T) {
				st := c08Step{Op: op, Init: c08GenState(rt, rs, rc.State), MaxCycle: 30}
				drawTV(rt, st.Init)
				// a call does not have to supply every fact an earlier call supplied: a quarter of the calls
				// leave out the JSON fact and/or some top-level variables (rules that mention them then fail
				// to evaluate in this call, on a new instance as on the reused one)
				omitted := false
				if rapid.IntRange(0, 3).Draw(rt, "omit_facts") == 0 {
					for _, name := range []string{"J", "N", "N2", "Q", "TS", "TB"} {
						if rapid.IntRange(0, 2).Draw(rt, "omit_"+name) == 0 {
							delete(st.Init.JSON, name)
							delete(st.Init.Top, name)
							omitted = true
						}
					}
				}
				switch op {
				case "execLimit":
					st.MaxCycle = uint64(rapid.IntRange(1, 2).Draw(rt, "maxcycle"))
				case "execPanic":
					st.FailAt, st.FailMode = rapid.IntRange(1, 5).Draw(rt, "fail_at"), int(facts.FailPanic)
					st.ErrOnFail = rapid.Bool().Draw(rt, "err_on_fail")
				case "execCancel":
					st.FailAt, st.FailMode = rapid.IntRange(1, 5).Draw(rt, "cancel_at"), int(facts.FailCancel)
				}
				hist.Steps = append(hist.Steps, st)
				v, abn, retr, sum := c08Apply(base, prep, kb, st)
				summaries = append(summaries, sum)
				nt := len(hist.Steps) >= 2 && (earlierAbnormal || earlierRetract || (omitted && earlierFull))
				labels := []string{"op:" + op, fmt.Sprintf("position:%d", len(hist.Steps))}
				if omitted {
					labels = append(labels, "call_without_some_fact")
					if earlierFull {
						labels = append(labels, "call_without_a_fact_an_earlier_call_supplied")
					}
				} else {
					defer func() { earlierFull = true }()
				}
				if earlierRetract {
					labels = append(labels, "after_retracting_call")
				}
				if earlierAbnormal {
					labels = append(labels, "after_abnormal_end")
				}
				col.Case(fmt.Sprint(base.Text, len(hist.Steps), summaries), nt, labels...)
				if col.WantSample(nt) {
					col.Sample(map[string]interface{}{"rules": gast.RulesString(base.Rules), "history": append([]string{}, summaries...)}, nt)
				}
				earlierAbnormal = earlierAbnormal || abn
				earlierRetract = earlierRetract || retr
				if len(v) > 0 {
					sawFailure = true
					msg := strings.Join(v, "\n") + "\n--- rules ---\n" + gast.RulesString(base.Rules) + "--- history ---\n" + strings.Join(summaries, "\n")
					path := col.Violation("C08", "C08/"+op+"/"+firstWords(v[0]), msg, hist)
					rt.Fatalf("C08 violated: %s (replay %s)", msg, path)
				}
			}
		}
		rt.Repeat(map[string]func(*rapid.T){
			"execQuiet":  step("execQuiet"),
			"execLimit":  step("execLimit"),
			"execPanic":  step("execPanic"),
			"execCancel": step("execCancel"),
			"execCtx":    step("execCtx"),
			"fetch":      step("fetch"),
		})
		_ = rs
	})
}

func init() {
	replayers["C08"] = func(raw json.RawMessage) error {
		var h c08Case
		if err := json.Unmarshal(raw, &h); err != nil {
			return err
		}
		rules, err := gast.DecodeRules(h.Rules)
		if err != nil {
			return err
		}
		base := &val.Case{Rules: rules, Text: h.Text, SoloTexts: h.SoloTexts, Listeners: 1, RemovedText: h.RemovedText, RemovedName: h.RemovedName, RemovedVia: h.RemovedVia}
		for try := 0; try < 16; try++ {
			prep, err := val.Prepare(base)
			if err != nil {
				return err
			}
			kb, err := obs.Instance(prep.Lib)
			if err != nil {
				return err
			}
			val.ApplyRemoved(base, kb)
			for _, st := range h.Steps {
				v, _, _, _ := c08Apply(base, prep, kb, st)
				if len(v) > 0 {
					return fmt.Errorf("%s", strings.Join(v, "; "))
				}
			}
		}
		return nil
	}
}
