package props

import (
	"encoding/json"
	"fmt"
	"strings"
	"testing"
	"unicode/utf8"

	"github.com/hyperjumptech/grule-rule-engine/ast"
	"github.com/hyperjumptech/grule-rule-engine/builder"
	"github.com/hyperjumptech/grule-rule-engine/pkg"
	"pgregory.net/rapid"

	"verif/internal/facts"
	"verif/internal/gast"
	"verif/internal/gen"
	"verif/internal/obs"
	"verif/internal/ref"
	"verif/internal/stats"
)

// C18: JSON rule definitions translate to GRL with the same meaning.

var c18OpName = map[gast.Op]string{gast.OpAnd: "and", gast.OpOr: "or", gast.OpEq: "eq", gast.OpNEq: "not", gast.OpGT: "gt", gast.OpGTE: "gte", gast.OpLT: "lt", gast.OpLTE: "lte",
	gast.OpBOr: "bor", gast.OpBAnd: "band", gast.OpAdd: "plus", gast.OpSub: "minus", gast.OpDiv: "div", gast.OpMul: "mul", gast.OpMod: "mod"}

type c18Conv struct {
	rt        *rapid.T
	notOpen   bool // the n-ary "not" finding is listed: avoid nested operator operands under "not"
	excluded  int
	features  map[string]int
	hasNested bool // a lower-precedence operator nested in a higher one
	hasEscape bool
}

func isOperatorNode(e gast.Expr) bool {
	switch x := e.(type) {
	case *gast.Bin:
		return true
	case *gast.Paren:
		return isOperatorNode(x.X)
	case *gast.Not:
		_, ok := stripParen(x.X).(*gast.Bin)
		return ok
	}
	return false
}

func stripParen(e gast.Expr) gast.Expr {
	for {
		p, ok := e.(*gast.Paren)
		if !ok {
			return e
		}
		e = p.X
	}
}

// rawGRL renders an atom the way a user writes a plain-string operand.
func rawGRL(e gast.Expr) string { return gast.ExprString(e) }

// operand converts an expression into a JSON operand (plain string, number, boolean or object).
func (c *c18Conv) operand(e gast.Expr) interface{} {
	e = stripParen(e)
	switch x := e.(type) {
	case *gast.Lit:
		switch x.T {
		case gast.TInt:
			if x.I >= 1<<53 || x.I <= -(1<<53) {
				// a JSON number cannot carry such an integer exactly
				c.features["raw_string"]++
				return rawGRL(x)
			}
			switch rapid.IntRange(0, 2).Draw(c.rt, "int_form") {
			case 0:
				c.features["number"]++
				return float64(x.I)
			case 1:
				c.features["const_number"]++
				return map[string]interface{}{"const": float64(x.I)}
			}
			c.features["raw_string"]++
			return rawGRL(x)
		case gast.TFloat:
			// only values whose shortest decimal form is unambiguous are sent as JSON numbers
			switch rapid.IntRange(0, 2).Draw(c.rt, "float_form") {
			case 0:
				if x.F != float64(int64(x.F)) {
					c.features["number"]++
					return x.F
				}
			case 1:
				if x.F != float64(int64(x.F)) {
					c.features["const_number"]++
					return map[string]interface{}{"const": x.F}
				}
			}
			c.features["raw_string"]++
			return rawGRL(x)
		case gast.TStr:
			if strings.ContainsAny(x.S, "\"\\\n\t'") || !isASCII(x.S) {
				c.hasEscape = true
			}
			if utf8.ValidString(x.S) && rapid.Bool().Draw(c.rt, "str_const") {
				c.features["const_string"]++
				return map[string]interface{}{"const": x.S}
			}
			c.features["raw_string"]++
			return gast.QuoteDouble(x.S)
		case gast.TBool:
			switch rapid.IntRange(0, 2).Draw(c.rt, "bool_form") {
			case 0:
				c.features["boolean"]++
				return x.B
			case 1:
				c.features["const_bool"]++
				return map[string]interface{}{"const": x.B}
			}
			return rawGRL(x)
		}
	case *gast.Path:
		if rapid.Bool().Draw(c.rt, "obj_wrap") {
			c.features["obj"]++
			return map[string]interface{}{"obj": rawGRL(x)}
		}
		c.features["raw_string"]++
		return rawGRL(x)
	case *gast.Call:
		if rapid.Bool().Draw(c.rt, "call_obj") {
			if m, ok := c.call(x); ok {
				return m
			}
		}
		c.features["raw_string"]++
		return rawGRL(x)
	case *gast.Not:
		inner := stripParen(x.X)
		if b, ok := inner.(*gast.Bin); ok {
			// unary not over an operator object (the only unary use the repository defines)
			c.features["unary_not"]++
			return map[string]interface{}{"not": []interface{}{c.tree(b)}}
		}
		c.features["raw_string"]++
		return rawGRL(x)
	case *gast.Bin:
		return c.tree(x)
	}
	c.features["raw_string"]++
	return rawGRL(e)
}

func isASCII(s string) bool {
	for i := 0; i < len(s); i++ {
		if s[i] >= 0x80 || s[i] < 0x20 {
			return false
		}
	}
	return true
}

// call converts F.Method(args) / Builtin(args) into a call object.
func (c *c18Conv) call(x *gast.Call) (interface{}, bool) {
	name := x.Name
	if x.Recv != nil {
		p, ok := x.Recv.(*gast.Path)
		if !ok {
			return nil, false
		}
		name = rawGRL(p) + "." + x.Name
	}
	arr := []interface{}{name}
	for _, a := range x.Args {
		o := c.callOperand(a)
		if s, ok := o.(string); ok && s == "" {
			return nil, false
		}
		arr = append(arr, o)
	}
	c.features["call"]++
	return map[string]interface{}{"call": arr}, true
}

func (c *c18Conv) callOperand(e gast.Expr) interface{} {
	return c.operand(e)
}

// tree converts a binary operator application into an operator object; chains of the same
// operator nested on the left are flattened into one n-ary object (n-ary = left fold).
func (c *c18Conv) tree(b *gast.Bin) interface{} {
	name := c18OpName[b.Op]
	var operands []gast.Expr
	cur := b
	for {
		operands = append([]gast.Expr{cur.R}, operands...)
		l, ok := stripParen(cur.L).(*gast.Bin)
		if ok && l.Op == b.Op && len(operands) < 3 && rapid.Bool().Draw(c.rt, "flatten") {
			cur = l
			continue
		}
		operands = append([]gast.Expr{cur.L}, operands...)
		break
	}
	if len(operands) > 2 {
		c.features["nary"]++
	}
	if b.Op == gast.OpAnd || b.Op == gast.OpOr {
		// operands must be objects
		arr := make([]interface{}, len(operands))
		for i, o := range operands {
			arr[i] = c.objectOperand(o)
		}
		return map[string]interface{}{name: arr}
	}
	if b.Op == gast.OpNEq && c.notOpen {
		nested := false
		for _, o := range operands {
			if isOperatorNode(o) {
				nested = true
			}
		}
		if nested {
			// known finding: "not" with two or more operands negates nested operator operands.
			// Express a != b as unary not over eq instead.
			c.excluded++
			eq := &gast.Bin{Op: gast.OpEq, L: b.L, R: b.R}
			return map[string]interface{}{"not": []interface{}{c.tree(eq)}}
		}
	}
	arr := make([]interface{}, len(operands))
	for i, o := range operands {
		if ob, ok := stripParen(o).(*gast.Bin); ok && gast.DocLevel(ob.Op) < gast.DocLevel(b.Op) {
			c.hasNested = true
		}
		arr[i] = c.operand(o)
	}
	return map[string]interface{}{name: arr}
}

// objectOperand renders an operand of and/or, which must be an object.
func (c *c18Conv) objectOperand(e gast.Expr) interface{} {
	e = stripParen(e)
	switch x := e.(type) {
	case *gast.Bin:
		if gast.DocLevel(x.Op) < 3 {
			c.hasNested = true
		}
		return c.tree(x)
	case *gast.Not:
		if b, ok := stripParen(x.X).(*gast.Bin); ok {
			c.features["unary_not"]++
			return map[string]interface{}{"not": []interface{}{c.tree(b)}}
		}
	case *gast.Lit:
		if x.T == gast.TBool {
			return map[string]interface{}{"const": x.B}
		}
	case *gast.Call:
		if m, ok := c.call(x); ok {
			return m
		}
	}
	c.features["obj"]++
	return map[string]interface{}{"obj": rawGRL(e)}
}

// when converts a condition.
func (c *c18Conv) when(e gast.Expr) interface{} {
	if rapid.IntRange(0, 5).Draw(c.rt, "when_plain") == 0 {
		c.features["plain_when"]++
		return rawGRL(e)
	}
	e = stripParen(e)
	if b, ok := e.(*gast.Bin); ok {
		return c.tree(b)
	}
	if n, ok := e.(*gast.Not); ok {
		if b, ok := stripParen(n.X).(*gast.Bin); ok {
			return map[string]interface{}{"not": []interface{}{c.tree(b)}}
		}
	}
	return map[string]interface{}{"obj": rawGRL(e)}
}

func (c *c18Conv) then(s gast.Stmt) interface{} {
	switch x := s.(type) {
	case *gast.Assign:
		if x.Op == "=" && rapid.IntRange(0, 3).Draw(c.rt, "then_plain") > 0 {
			c.features["set"]++
			var lhs interface{} = rawGRL(x.LHS)
			if rapid.Bool().Draw(c.rt, "lhs_obj") {
				lhs = map[string]interface{}{"obj": rawGRL(x.LHS)}
			}
			return map[string]interface{}{"set": []interface{}{lhs, c.operand(x.RHS)}}
		}
	case *gast.CallStmt:
		if call, ok := x.X.(*gast.Call); ok && rapid.Bool().Draw(c.rt, "then_call_obj") {
			if m, ok := c.call(call); ok {
				return m
			}
		}
	}
	c.features["plain_then"]++
	t := gast.StmtString(s)
	if rapid.Bool().Draw(c.rt, "then_semicolon") {
		t += ";"
	}
	return t
}

type c18Case struct {
	JSON   string       `json:"json"`
	Direct string       `json:"direct_grl"`
	Name   string       `json:"name"`
	Desc   string       `json:"desc"`
	Sal    int64        `json:"salience"`
	State  *facts.State `json:"state"`
	// Siblings: further rules of the same rule set (never satisfied), with the description and salience
	// each must end up with (the defaults where the JSON omits them)
	Siblings []c18Sibling `json:"other_rules_of_the_set,omitempty"`
	// RefMatch: what the reference interpreter says about the condition on the state (nil: no opinion)
	RefMatch *bool `json:"condition_per_reference_interpreter,omitempty"`
}

type c18Sibling struct {
	Name string `json:"name"`
	Desc string `json:"desc"`
	Sal  int64  `json:"salience"`
}

type c18Obs struct {
	Match bool
	Final *facts.State
	Err   string
}

func c18Observe(text string, name string, st *facts.State) (*c18Obs, *ast.RuleEntry, error) {
	lib, err := obs.Build(text)
	if err != nil {
		return nil, nil, err
	}
	entry := lib.GetKnowledgeBase(obs.KBName, obs.KBVersion).RuleEntries[name]
	kb, err := obs.Instance(lib)
	if err != nil {
		return nil, nil, err
	}
	s1 := st.Copy()
	dc, _ := obs.NewDataContext(s1)
	names, _, ferr, pan := obs.Fetch(kb, dc, true)
	o := &c18Obs{}
	if pan != nil {
		return nil, nil, fmt.Errorf("fetch panicked: %v", pan)
	}
	if ferr != nil {
		o.Err = "condition error"
	}
	for _, n := range names {
		if n == name {
			o.Match = true
		}
	}
	kb2, err := obs.Instance(lib)
	if err != nil {
		return nil, nil, err
	}
	s2 := st.Copy()
	dc2, _ := obs.NewDataContext(s2)
	res := obs.Execute(kb2, dc2, obs.RunOpts{MaxCycle: 1})
	if res.Panicked != nil {
		return nil, nil, fmt.Errorf("execute panicked: %v", res.Panicked)
	}
	o.Final = obs.Capture(s2, dc2)
	return o, entry, nil
}

func c18Translate(js string) (text string, err error, pan interface{}) {
	defer func() {
		if r := recover(); r != nil {
			pan = r
		}
	}()
	res, err := pkg.NewJSONResourceFromResource(pkg.NewBytesResource([]byte(js)))
	if err != nil {
		return "", err, nil
	}
	b, err := res.Load()
	return string(b), err, nil
}

func c18Run(c *c18Case) []string {
	var v []string
	text, terr, pan := c18Translate(c.JSON)
	if pan != nil {
		return []string{fmt.Sprintf("the translator panicked: %v", pan)}
	}
	if terr != nil {
		return []string{fmt.Sprintf("the translator rejected a well-formed JSON rule: %v", terr)}
	}
	got, entry, err := c18Observe(text, c.Name, c.State)
	if err != nil {
		return []string{fmt.Sprintf("the GRL produced by the translator is not accepted or not usable: %v%s\n--- produced GRL ---\n%s", err, reporterDetails(err), text)}
	}
	if entry == nil {
		return []string{fmt.Sprintf("the produced GRL has no rule named %s:\n%s", c.Name, text)}
	}
	if entry.RuleDescription != c.Desc {
		v = append(v, fmt.Sprintf("description %q, JSON says %q", entry.RuleDescription, c.Desc))
	}
	if int64(entry.Salience) != c.Sal {
		v = append(v, fmt.Sprintf("salience %d, JSON says %d", entry.Salience, c.Sal))
	}
	for _, sib := range c.Siblings {
		_, e2, err2 := c18Observe(text, sib.Name, c.State)
		if err2 != nil || e2 == nil {
			v = append(v, fmt.Sprintf("rule %s of the set is missing from the produced GRL (%v)", sib.Name, err2))
			continue
		}
		if e2.RuleDescription != sib.Desc {
			v = append(v, fmt.Sprintf("rule %s of the set: description %q, JSON says %q", sib.Name, e2.RuleDescription, sib.Desc))
		}
		if int64(e2.Salience) != sib.Sal {
			v = append(v, fmt.Sprintf("rule %s of the set: salience %d, JSON says %d", sib.Name, e2.Salience, sib.Sal))
		}
	}
	want, _, err := c18Observe(c.Direct, c.Name, c.State)
	if err != nil {
		return append(v, "harness: direct rendering does not build: "+err.Error())
	}
	if c.RefMatch != nil && got.Err == "" && got.Match != *c.RefMatch && want.Match == got.Match {
		// both renderings agree with each other but not with the meaning of the tree: whatever the text went
		// through on its way into the engine (the listener's decoding of string constants, for one) changed it
		v = append(v, fmt.Sprintf("the condition of the translated rule is %v, the JSON operator tree denotes %v on these facts (reference interpreter)\n--- produced GRL ---\n%s", got.Match, *c.RefMatch, text))
	}
	if got.Match != want.Match || got.Err != want.Err {
		v = append(v, fmt.Sprintf("the condition of the translated rule is %v (%s), the JSON operator tree denotes %v (%s)\n--- produced GRL ---\n%s--- tree rendered with explicit grouping ---\n%s", got.Match, got.Err, want.Match, want.Err, text, c.Direct))
	}
	if d := facts.Diff(want.Final, got.Final); len(d) > 0 {
		if len(d) > 4 {
			d = d[:4]
		}
		v = append(v, fmt.Sprintf("executing the translated rule leaves different facts: %s\n--- produced GRL ---\n%s--- expected ---\n%s", strings.Join(d, "; "), text, c.Direct))
	}
	return v
}

var c18Malformed = []struct {
	Name string
	JSON string
}{
	{"empty_input", ``},
	{"blank_input", "  \n "},
	{"not_json", `rule X {}`},
	{"number", `42`},
	{"unknown_operator", `{"name":"R","when":{"xor":["F.B",true]},"then":["F.I64 = 1"]}`},
	{"arity_0_eq", `{"name":"R","when":{"eq":[]},"then":["F.I64 = 1"]}`},
	{"arity_0_plus", `{"name":"R","when":{"gt":[{"plus":[]},1]},"then":["F.I64 = 1"]}`},
	{"and_arity_1", `{"name":"R","when":{"and":[{"obj":"F.B"}]},"then":["F.I64 = 1"]}`},
	{"or_arity_0", `{"name":"R","when":{"or":[]},"then":["F.I64 = 1"]}`},
	{"two_keys", `{"name":"R","when":{"eq":["F.B",true],"gt":["F.I64",1]},"then":["F.I64 = 1"]}`},
	{"missing_name", `{"when":"true","then":["F.I64 = 1"]}`},
	{"empty_name", `{"name":"","when":"true","then":["F.I64 = 1"]}`},
	{"missing_when", `{"name":"R","then":["F.I64 = 1"]}`},
	{"missing_then", `{"name":"R","when":"true"}`},
	{"null_when", `{"name":"R","when":null,"then":["F.I64 = 1"]}`},
	{"when_is_array", `{"name":"R","when":["true"],"then":["F.I64 = 1"]}`},
	{"when_is_number", `{"name":"R","when":1,"then":["F.I64 = 1"]}`},
	{"then_not_array", `{"name":"R","when":"true","then":"F.I64 = 1"}`},
	{"then_number", `{"name":"R","when":"true","then":[1]}`},
	{"set_arity_1", `{"name":"R","when":"true","then":[{"set":["F.I64"]}]}`},
	{"set_arity_3", `{"name":"R","when":"true","then":[{"set":["F.I64",1,2]}]}`},
	{"call_arity_0", `{"name":"R","when":"true","then":[{"call":[]}]}`},
	{"call_name_not_string", `{"name":"R","when":"true","then":[{"call":[1]}]}`},
	{"obj_not_string", `{"name":"R","when":{"eq":[{"obj":1},1]},"then":["F.I64 = 1"]}`},
	{"const_null", `{"name":"R","when":{"eq":[{"const":null},1]},"then":["F.I64 = 1"]}`},
	{"const_array", `{"name":"R","when":{"eq":[{"const":[1]},1]},"then":["F.I64 = 1"]}`},
	{"operator_not_array", `{"name":"R","when":{"eq":"F.B"},"then":["F.I64 = 1"]}`},
	{"operand_null", `{"name":"R","when":{"eq":[null,1]},"then":["F.I64 = 1"]}`},
	{"operand_array", `{"name":"R","when":{"eq":[[1],1]},"then":["F.I64 = 1"]}`},
	{"and_operand_string", `{"name":"R","when":{"and":["F.B","F.B2"]},"then":["F.I64 = 1"]}`},
	{"salience_string", `{"name":"R","salience":"5","when":"true","then":["F.I64 = 1"]}`},
	{"salience_fraction", `{"name":"R","salience":1.5,"when":"true","then":["F.I64 = 1"]}`},
	{"salience_out_of_int32", `{"name":"R","salience":2147483648,"when":"true","then":["F.I64 = 1"]}`},
	{"name_not_identifier", `{"name":"two words","when":"true","then":["F.I64 = 1"]}`},
	{"name_is_keyword", `{"name":"then","when":"true","then":["F.I64 = 1"]}`},
	{"ruleset_with_bad_rule", `[{"name":"A","when":"true","then":["F.I64 = 1"]},{"name":"B","when":{"nope":[1,2]},"then":["F.I64 = 1"]}]`},
	{"ruleset_not_objects", `[1,2]`},
	{"ruleset_null_element", `[null]`},
	{"ruleset_null_after_rule", `[{"name":"A","when":"true","then":["F.I64 = 1"]},null]`},
	{"rule_is_null", `null`},
	{"then_element_null", `{"name":"R","when":"true","then":[null]}`},
	{"operand_object_null_value", `{"name":"R","when":{"eq":null},"then":["F.I64 = 1"]}`},
	{"ruleset_duplicate_names", `[{"name":"A","when":"true","then":["F.I64 = 1"]},{"name":"A","when":"false","then":["F.I64 = 2"]}]`},
	{"ruleset_later_rule_without_name", `[{"name":"A","when":"true","then":["F.I64 = 1"]},{"when":"true","then":["F.I64 = 2"]}]`},
	{"ruleset_later_rule_without_when", `[{"name":"A","when":"true","then":["F.I64 = 1"]},{"name":"B","then":["F.I64 = 2"]}]`},
	{"ruleset_later_rule_without_then", `[{"name":"A","when":"true","then":["F.I64 = 1"]},{"name":"B","when":"true"}]`},
	{"truncated_json", `{"name":"R","when":{"eq":["F.B",true]`},
	{"empty_action_string", `{"name":"R","when":"true","then":[""]}`},
	{"empty_call_operand", `{"name":"R","when":"true","then":[{"call":["F.Mark", ""]}]}`},
	{"empty_then_list", `{"name":"R","when":"true","then":[]}`},
}

func TestC18(t *testing.T) {
	col := stats.New("C18", "a typed expression tree (condition of depth 1-4 over all 15 operators, negation, fact paths of every addressing form, calls, constants incl. hostile strings) and 1-3 actions are generated and converted into the JSON rule format with drawn choices per node: operator objects (chains of one operator flattened into n-ary objects of arity 2-4 = left fold), unary not over operator objects, plain-string operands (raw GRL of an atom), JSON numbers and booleans, obj/const wrappers, call objects, set objects, plain-string actions with/without semicolon; single-rule and rule-set form (the rule among 0-3 other, never satisfied rules that state or omit description and salience on their own); description and salience drawn. Oracle: the translator's output is accepted by the builder with the JSON's name, description and salience; its FetchMatchingRules membership and the facts left by one firing equal those of the same tree rendered by the harness's own printer with explicit grouping and own string quoting, built through the same engine (so evaluator defects cannot leak in), on a generated fact state; where the two agree, the condition's value is also compared with the reference interpreter's; 50 fixed malformed inputs (empty, blank, not JSON, unknown operator, arity 0, and/or arity <2, two keys, missing/empty name, missing/null when/then, wrong JSON types, bad salience, bad set/call arity, non-identifier name, truncated JSON ...) must end in an error from the translator or the builder, never a panic or a usable rule. A twelfth of the conditions state that a string constant from the hostile pool (quotes, escapes, Latin-1 and other non-ASCII text) equals - by ==, by a negated != or by length - a fact field that was given the constant's value. Non-trivial: a lower-precedence operator nested in a higher one, or a string constant that needs escaping. Distinct by the JSON text.",
		"plain-string operands are raw GRL by documentation: the generator only puts atoms there",
		"arity 1 is only used for unary not over an operator object (the one unary form the repository defines)")
	defer col.Flush()
	stCfg := gen.StateCfg{D: gen.Small, JSON: true, Top: true}
	paths := gen.AllPaths(stCfg)
	notOpen := stats.IsOpen("C18", "json-not-nary")
	descOpen := stats.IsOpen("C18", "json-desc-escaped")
	check(t, 0, budget(6000, 80000), func(rt *rapid.T) {
		st := gen.SeededState(rapid.Uint64Range(0, 1<<16).Draw(rt, "state_seed"), stCfg)
		g := gen.NewXG(rt, gen.ExprCfg{Paths: paths, Recv: "F", Hostile: true, SmallLits: false, StrFuncs: true, NoPtrNum: true})
		cond := g.Bool(rapid.IntRange(1, 4).Draw(rt, "cond_depth"))
		// the translation works on text: a quarter of the conditions are a negated comparison whose operands
		// are themselves compound, or string constants that read like operators
		shape := rapid.IntRange(0, 11).Draw(rt, "cond_shape")
		cmp6 := []gast.Op{gast.OpEq, gast.OpNEq, gast.OpLT, gast.OpLTE, gast.OpGT, gast.OpGTE}
		switch shape {
		case 0:
			op := cmp6[rapid.IntRange(0, 1).Draw(rt, "neg_bool_op")]
			cond = &gast.Not{X: &gast.Paren{X: &gast.Bin{Op: op, L: &gast.Paren{X: g.Bool(rapid.IntRange(1, 2).Draw(rt, "neg_left_depth"))}, R: g.Bool(rapid.IntRange(0, 1).Draw(rt, "neg_right_depth"))}}}
		case 1:
			lit := gast.S(rapid.SampledFrom([]string{" == ", "a == b", " != ", "x != y", " && ", " || ", "!(", " > ", " >= 1", "1 + 2", " = ", "==", "!"}).Draw(rt, "operator_like_string"))
			var l, r gast.Expr = lit, g.Str(rapid.IntRange(0, 1).Draw(rt, "neg_str_depth"))
			if rapid.Bool().Draw(rt, "neg_str_swap") {
				l, r = r, l
			}
			cond = &gast.Not{X: &gast.Paren{X: &gast.Bin{Op: cmp6[rapid.IntRange(0, 5).Draw(rt, "neg_str_op")], L: l, R: r}}}
		case 2:
			l, _ := g.Int(rapid.IntRange(1, 2).Draw(rt, "neg_int_depth"))
			r, _ := g.Int(1)
			cond = &gast.Not{X: &gast.Paren{X: &gast.Bin{Op: cmp6[rapid.IntRange(0, 5).Draw(rt, "neg_int_op")], L: g.NoBarePtr(l, false), R: g.NoBarePtr(r, false)}}}
		case 3:
			// a string constant denotes exactly its characters: a fact field is given the constant's value and compared
			// with it (the constants come from the hostile pool: quotes, escapes, Latin-1 and other non-ASCII text)
			h := rapid.SampledFrom(gen.HostileStrings).Draw(rt, "identity_string")
			st.Go["F"].S2 = h
			switch rapid.IntRange(0, 3).Draw(rt, "identity_form") {
			case 0:
				cond = &gast.Bin{Op: gast.OpEq, L: gast.P("F", "S2"), R: gast.S(h)}
			case 1:
				cond = &gast.Not{X: &gast.Paren{X: &gast.Bin{Op: gast.OpNEq, L: gast.S(h), R: gast.P("F", "S2")}}}
			case 2:
				cond = &gast.Bin{Op: gast.OpEq, L: &gast.Call{Recv: gast.S(h), Name: "Len"}, R: &gast.Call{Recv: gast.P("F", "S2"), Name: "Len"}}
			default:
				cond = &gast.Bin{Op: gast.OpAnd, L: &gast.Paren{X: cond}, R: &gast.Bin{Op: gast.OpEq, L: gast.P("F", "S2"), R: gast.S(h)}}
			}
		}
		name := "JR" + fmt.Sprint(rapid.IntRange(0, 99).Draw(rt, "name"))
		var thens []gast.Stmt
		na := rapid.IntRange(1, 3).Draw(rt, "nactions")
		for i := 0; i < na; i++ {
			switch rapid.IntRange(0, 3).Draw(rt, "action") {
			case 0:
				e, _ := g.Int(2)
				thens = append(thens, &gast.Assign{LHS: gast.P("F", "I64"), Op: "=", RHS: g.NoBarePtr(e, false)})
			case 1:
				thens = append(thens, &gast.Assign{LHS: gast.P("F", "S"), Op: "=", RHS: g.Str(2)})
			case 2:
				thens = append(thens, &gast.CallStmt{X: &gast.Call{Recv: gast.P("F"), Name: "SetH", Args: []gast.Expr{gast.I(int64(rapid.IntRange(0, 9).Draw(rt, "seth")))}}})
			default:
				thens = append(thens, &gast.Assign{LHS: gast.P("J", "n"), Op: "=", RHS: g.Bool(1)})
			}
		}
		thens = append(thens, &gast.CallStmt{X: &gast.Call{Name: "Retract", Args: []gast.Expr{gast.S(name)}}})
		conv := &c18Conv{rt: rt, notOpen: notOpen, features: map[string]int{}}
		descPool := []string{"", "a rule", "When testcar is speeding up we keep increase the speed.", "x > 1", "it's", "émoji ✓", "//", "/* c */"}
		if !descOpen {
			descPool = append(descPool, "say \"hi\"", "back\\slash", "tab\there")
		}
		desc := rapid.SampledFrom(descPool).Draw(rt, "desc")
		sal := rapid.SampledFrom([]int64{0, 1, -1, 10, 2147483647, -2147483648}).Draw(rt, "salience")
		jr := map[string]interface{}{"name": name, "when": conv.when(cond)}
		if desc != "" || rapid.Bool().Draw(rt, "desc_present") {
			jr["desc"] = desc
		}
		if sal != 0 || rapid.Bool().Draw(rt, "sal_present") {
			jr["salience"] = sal
		}
		var then []interface{}
		for i := 0; i < len(thens); i++ {
			// two consecutive statements may share one plain-string action (with or without a closing semicolon)
			if i+1 < len(thens) && rapid.IntRange(0, 4).Draw(rt, "two_statements_in_one_string") == 0 {
				joined := gast.StmtString(thens[i]) + rapid.SampledFrom([]string{"; ", ";", " ; "}).Draw(rt, "stmt_sep") + gast.StmtString(thens[i+1])
				if rapid.Bool().Draw(rt, "joined_semicolon") {
					joined += ";"
				}
				then = append(then, joined)
				conv.features["plain_then_with_two_statements"]++
				i++
				continue
			}
			then = append(then, conv.then(thens[i]))
		}
		jr["then"] = then
		var doc interface{} = jr
		var siblings []c18Sibling
		if rapid.Bool().Draw(rt, "ruleset_form") {
			// a rule set: the rule under test among 0-3 other rules that are never satisfied; each rule
			// states or omits its description and salience on its own
			set := []interface{}{jr}
			conv.features["ruleset_form"]++
			for i, n := 0, rapid.IntRange(0, 3).Draw(rt, "nsiblings"); i < n; i++ {
				sib := c18Sibling{Name: fmt.Sprintf("Sib%d", i)}
				sj := map[string]interface{}{"name": sib.Name, "when": "false", "then": []interface{}{"F.I64 = 1"}}
				if rapid.Bool().Draw(rt, "sib_desc") {
					sib.Desc = rapid.SampledFrom([]string{"other rule", "x", "first rule"}).Draw(rt, "sib_desc_text")
					sj["desc"] = sib.Desc
				}
				if rapid.Bool().Draw(rt, "sib_sal") {
					sib.Sal = rapid.SampledFrom([]int64{7, -3, 100, 1}).Draw(rt, "sib_sal_value")
					sj["salience"] = sib.Sal
				}
				siblings = append(siblings, sib)
				if rapid.Bool().Draw(rt, "sib_before") {
					set = append([]interface{}{sj}, set...)
				} else {
					set = append(set, sj)
				}
			}
			if len(siblings) > 0 {
				conv.features["ruleset_with_several_rules"]++
			}
			doc = set
		}
		jb, err := json.Marshal(doc)
		if err != nil {
			rt.Fatalf("harness: %v", err)
		}
		r := &gast.Rule{Name: name, Desc: &desc, DescQ: '"', Salience: &sal, When: cond, Then: thens}
		if strings.ContainsAny(desc, "\"\\\t") {
			r.Desc = nil // the direct rendering is only used for behaviour
		}
		c := &c18Case{JSON: string(jb), Direct: gast.RuleString(r) + "\n", Name: name, Desc: desc, Sal: sal, State: st, Siblings: siblings}
		// the reference must be able to give the tree a meaning; otherwise the case is outside the domain
		rv, rerr := ref.New(st.Copy()).Eval(cond)
		if rerr != nil {
			col.Case(c.JSON, false, "excluded_condition_not_evaluable")
			return
		}
		if rv.K == ref.KBool {
			b := rv.B
			c.RefMatch = &b
		}
		v := c18Run(c)
		nt := conv.hasNested || conv.hasEscape
		var labels []string
		for f := range conv.features {
			labels = append(labels, "form:"+f)
		}
		if conv.excluded > 0 {
			labels = append(labels, "excluded_known_nary_not")
		}
		if conv.hasNested {
			labels = append(labels, "lower_precedence_nested_in_higher")
		}
		if conv.hasEscape {
			labels = append(labels, "string_needs_escaping")
		}
		if shape <= 2 {
			labels = append(labels, []string{"shape:negated_comparison_of_compound_booleans", "shape:negated_comparison_with_operator_like_string", "shape:negated_comparison_of_compound_numbers"}[shape])
		}
		col.Case(c.JSON, nt, labels...)
		if col.WantSample(nt) {
			col.Sample(map[string]interface{}{"json": c.JSON, "tree_with_explicit_grouping": c.Direct}, nt)
		}
		if len(v) > 0 && !strings.HasPrefix(v[0], "harness:") {
			msg := strings.Join(v, "\n") + "\n--- JSON ---\n" + c.JSON
			path := col.Violation("C18", "C18/"+firstWords(v[0]), msg, c)
			rt.Fatalf("C18 violated: %s (replay %s)", msg, path)
		}
	})
	c18MalformedAndProbes(t, col)
}

func c18MalformedAndProbes(t *testing.T, col *stats.Collector) {
	for _, m := range c18Malformed {
		col.Case("malformed:"+m.Name, false, "malformed_input")
		text, terr, pan := c18Translate(m.JSON)
		bad := ""
		switch {
		case pan != nil:
			bad = fmt.Sprintf("malformed input %s makes the translator panic: %v", m.Name, pan)
		case terr == nil:
			// the builder must reject what the translator let through
			lib := ast.NewKnowledgeLibrary()
			berr, bpan := func() (err error, p interface{}) {
				defer func() {
					if r := recover(); r != nil {
						p = r
					}
				}()
				return builder.NewRuleBuilder(lib).BuildRuleFromResource("m", "1", pkg.NewBytesResource([]byte(text))), nil
			}()
			if bpan != nil {
				bad = fmt.Sprintf("malformed input %s: the translator's output makes the builder panic: %v", m.Name, bpan)
			} else if berr == nil {
				bad = fmt.Sprintf("malformed input %s is accepted without error; produced GRL: %s", m.Name, text)
			}
		}
		if bad != "" {
			id := "json-malformed-" + m.Name
			if stats.IsOpen("C18", id) {
				col.Known("C18", id, bad)
				continue
			}
			path := col.Violation("C18", "C18/malformed/"+m.Name, bad, map[string]interface{}{"malformed": m.Name, "json": m.JSON})
			t.Errorf("C18 violated: %s (replay %s)", bad, path)
		}
	}
	// known finding: n-ary "not" negates nested operator operands
	st := gen.SeededState(3, gen.StateCfg{D: gen.Small, JSON: true, Top: true})
	st.Go["F"].I64, st.Go["F"].B = 5, true
	js := `{"name":"NotProbe","when":{"not":[{"gt":["F.I64",1]},"F.B"]},"then":["Retract(\"NotProbe\")"]}`
	direct := "rule NotProbe { when (F.I64 > 1) != F.B then Retract(\"NotProbe\"); }\n"
	v := c18Run(&c18Case{JSON: js, Direct: direct, Name: "NotProbe", Desc: "", Sal: 0, State: st})
	if len(v) > 0 {
		if stats.IsOpen("C18", "json-not-nary") {
			col.Known("C18", "json-not-nary", "{\"not\":[{\"gt\":[\"F.I64\",1]},\"F.B\"]} is translated to `!(F.I64 > 1) != F.B`, the opposite of the documented `!=`")
		} else {
			path := col.Violation("C18", "C18/json-not-nary", strings.Join(v, "\n"), map[string]interface{}{"json": js})
			t.Errorf("C18 violated: n-ary not (replay %s)", path)
		}
	}
	// known finding: descriptions come back escaped
	js = `{"name":"DescProbe","desc":"say \"hi\" \\ there","when":"true","then":["Retract(\"DescProbe\")"]}`
	v = c18Run(&c18Case{JSON: js, Direct: "rule DescProbe { when true then Retract(\"DescProbe\"); }\n", Name: "DescProbe", Desc: "say \"hi\" \\ there", Sal: 0, State: st})
	if len(v) > 0 {
		if stats.IsOpen("C18", "json-desc-escaped") {
			col.Known("C18", "json-desc-escaped", "a JSON description containing a double quote or a backslash comes back escaped (GRL keeps descriptions raw): "+firstLine(v[0]))
		} else {
			path := col.Violation("C18", "C18/json-desc-escaped", strings.Join(v, "\n"), map[string]interface{}{"json": js})
			t.Errorf("C18 violated: description escaping (replay %s)", path)
		}
	}
	// large integral constants
	for _, probe := range []struct{ js, direct string }{
		{`{"name":"BigConst","when":{"gt":[{"const":1e19},"F.F64"]},"then":["Retract(\"BigConst\")"]}`, "rule BigConst { when 1e19 > F.F64 then Retract(\"BigConst\"); }\n"},
		{`{"name":"BigConst","when":{"gt":[{"const":1e300},"F.F64"]},"then":["Retract(\"BigConst\")"]}`, "rule BigConst { when 1e300 > F.F64 then Retract(\"BigConst\"); }\n"},
		{`{"name":"BigConst","when":{"lt":[{"const":-1e25},"F.F64"]},"then":["Retract(\"BigConst\")"]}`, "rule BigConst { when -1e25 < F.F64 then Retract(\"BigConst\"); }\n"},
	} {
		col.Case(probe.js, false, "large_constant_seed")
		v = c18Run(&c18Case{JSON: probe.js, Direct: probe.direct, Name: "BigConst", State: st})
		if len(v) > 0 {
			if stats.IsOpen("C18", "json-large-const") {
				col.Known("C18", "json-large-const", "{\"const\":1e19} is printed as an out-of-range integer literal and rejected by the builder")
			} else {
				path := col.Violation("C18", "C18/json-large-const", strings.Join(v, "\n"), map[string]interface{}{"json": probe.js})
				t.Errorf("C18 violated: large constant (replay %s)", path)
			}
			break
		}
	}
}

func firstLine(s string) string {
	if i := strings.Index(s, "\n"); i >= 0 {
		return s[:i]
	}
	return s
}

func init() {
	replayers["C18"] = func(raw json.RawMessage) error {
		var probe struct {
			Malformed string `json:"malformed"`
		}
		_ = json.Unmarshal(raw, &probe)
		var c c18Case
		if err := json.Unmarshal(raw, &c); err != nil {
			return err
		}
		if c.Direct == "" {
			return fmt.Errorf("fixed-input probe: re-run ./check C18 quick")
		}
		if v := c18Run(&c); len(v) > 0 {
			return fmt.Errorf("%s", strings.Join(v, "; "))
		}
		return nil
	}
}
