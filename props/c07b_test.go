package props

import (
	"encoding/json"
	"fmt"
	"strings"
	"testing"

	"github.com/hyperjumptech/grule-rule-engine/ast"
	"pgregory.net/rapid"

	"verif/internal/facts"
	"verif/internal/gast"
	"verif/internal/gen"
	"verif/internal/obs"
	"verif/internal/stats"
	"verif/internal/val"
)

// C07, second family: a whole multi-cycle rule set behaves the same whether or not a bystander rule
// that can never fire shares its knowledge base - in the same resource or in an earlier / later one.

type c07Layout struct {
	Name  string   `json:"layout"`
	Texts []string `json:"resources"`
	// Rejected marks resources (by index) that the builder has to reject
	Rejected []int `json:"resources_to_be_rejected,omitempty"`
}

type c07ByCase struct {
	Family   string       `json:"family"`
	Alone    []string     `json:"resources_alone"`
	Layouts  []c07Layout  `json:"layouts"`
	Init     *facts.State `json:"init"`
	MaxCycle uint64       `json:"max_cycle"`
	ByNames  []string     `json:"bystanders"`
}

type c07Outcome2 struct {
	Fired []string
	Class string
	Final *facts.State
}

func c07Light(texts []string, init *facts.State, maxCycle uint64, rejected ...int) (*c07Outcome2, error) {
	lib := ast.NewKnowledgeLibrary()
	isRej := map[int]bool{}
	for _, i := range rejected {
		isRej[i] = true
	}
	for i, t := range texts {
		berr, pan := obs.BuildInto(lib, obs.KBName, obs.KBVersion, t)
		if isRej[i] {
			if berr == nil || pan != nil {
				return nil, fmt.Errorf("harness: resource %d was to be rejected (%v, %v)", i, berr, pan)
			}
			continue
		}
		if berr != nil {
			return nil, fmt.Errorf("building resource %d: %v", i, berr)
		}
	}
	kb, err := obs.Instance(lib)
	if err != nil {
		return nil, fmt.Errorf("instance: %v", err)
	}
	live := init.Copy()
	for _, f := range live.Go {
		if f != nil {
			f.SetProbe(&facts.Probe{})
		}
	}
	dc, err := obs.NewDataContext(live)
	if err != nil {
		return nil, err
	}
	rec := &obs.Recorder{}
	res := obs.Execute(kb, dc, obs.RunOpts{MaxCycle: maxCycle, Listeners: listenersOf(rec)})
	out := &c07Outcome2{Final: obs.Capture(live, dc)}
	for _, e := range rec.Events {
		if e.Kind == obs.EvExec {
			out.Fired = append(out.Fired, e.Rule)
		}
	}
	switch {
	case res.Panicked != nil:
		out.Class = "panic"
	case res.Err == nil:
		out.Class = "nil"
	case val.IsCycleLimitErr(res.Err):
		out.Class = "cyclelimit"
	default:
		out.Class = "error"
	}
	return out, nil
}

func c07Compare(bc *c07ByCase, reps int) (msgs []string, alone *c07Outcome2, err error) {
	alone, err = c07Light(bc.Alone, bc.Init, bc.MaxCycle)
	if err != nil {
		return nil, nil, err
	}
	// the run alone has to be reproducible (pairwise distinct saliences): otherwise nothing can be compared
	for i := 0; i < reps; i++ {
		again, err := c07Light(bc.Alone, bc.Init, bc.MaxCycle)
		if err != nil {
			return nil, nil, err
		}
		if strings.Join(again.Fired, ",") != strings.Join(alone.Fired, ",") || len(facts.Diff(alone.Final, again.Final)) > 0 {
			return nil, alone, fmt.Errorf("the rule set alone does not run reproducibly")
		}
	}
	by := map[string]bool{}
	for _, n := range bc.ByNames {
		by[n] = true
	}
	for _, l := range bc.Layouts {
		for i := 0; i < reps; i++ {
			tog, err := c07Light(l.Texts, bc.Init, bc.MaxCycle, l.Rejected...)
			if err != nil {
				return nil, alone, fmt.Errorf("layout %s: %v", l.Name, err)
			}
			var m []string
			for _, f := range tog.Fired {
				if by[f] {
					m = append(m, fmt.Sprintf("the bystander %s, whose condition is false on every reachable state, fired", f))
				}
			}
			if strings.Join(tog.Fired, ",") != strings.Join(alone.Fired, ",") {
				m = append(m, fmt.Sprintf("alone the rules fire %v, with the bystander they fire %v", alone.Fired, tog.Fired))
			}
			if tog.Class != alone.Class {
				m = append(m, fmt.Sprintf("alone Execute ends with %s, with the bystander with %s", alone.Class, tog.Class))
			}
			if d := facts.Diff(alone.Final, tog.Final); len(d) > 0 {
				if len(d) > 5 {
					d = d[:5]
				}
				m = append(m, "the final facts differ: "+strings.Join(d, "; "))
			}
			if len(m) > 0 {
				msgs = append(msgs, fmt.Sprintf("bystander %s: %s", l.Name, strings.Join(m, "; ")))
				break
			}
		}
	}
	return msgs, alone, nil
}

// subExprs collects the boolean / comparison sub-expressions of a condition.
func boolSubExprs(e gast.Expr) []gast.Expr {
	var out []gast.Expr
	gast.Walk(e, func(x gast.Expr) {
		switch b := x.(type) {
		case *gast.Bin:
			switch b.Op {
			case gast.OpAnd, gast.OpOr, gast.OpEq, gast.OpNEq, gast.OpLT, gast.OpLTE, gast.OpGT, gast.OpGTE:
				out = append(out, x)
			}
		case *gast.Not:
			out = append(out, x)
		}
	})
	return out
}

const c07BystanderRule = " Second family (multi-cycle): a generated rule set with pairwise distinct saliences (1-5 rules over 2-5 hot locations, all assignment forms, Retract, Complete; up to 30 cycles; one or several resources) is executed alone and together with 1-2 bystander rules that can never fire (their condition is and-ed with F.H == -777 on either side; F.H is never written) but are made of the rule set's own material - a whole condition, one of its sub-expressions, or a new comparison on a hot location, with a copy of a rule's action list. Layouts: bystander first / last in the same resource, in an earlier resource, in a later resource, in a resource that is rejected as a whole (offered last or after the first resource). Oracle: the firing sequence, the class of the result and the complete final facts are the same with and without the bystander (each layout run 2-3 times); non-trivial there: the run alone has at least 2 firings."

func c07BystanderFamily(t *testing.T, col *stats.Collector) {
	rc := fullRuleCfg()
	rc.Forget = false
	rc.DistinctSalience = true
	rc.MinRules, rc.MaxRules = 1, 5
	cfg := rsGenCfg{Rules: rc, Vary: true, MaxCycle: func(rt *rapid.T) uint64 { return uint64(rapid.SampledFrom([]int{3, 8, 30}).Draw(rt, "maxcycle")) }}
	check(t, 2, budget(2400, 30000), func(rt *rapid.T) {
		c, rs := genRSCase(rt, cfg)
		c.Init.Go["F"].H = 0
		never := func() gast.Expr { return &gast.Bin{Op: gast.OpEq, L: gast.P("F", "H"), R: gast.I(-777)} }
		var bys []*gast.Rule
		nby := rapid.IntRange(1, 2).Draw(rt, "nbystanders")
		var labels []string
		for i := 0; i < nby; i++ {
			src := c.Rules[rapid.IntRange(0, len(c.Rules)-1).Draw(rt, "bystander_source")]
			var material gast.Expr
			switch rapid.IntRange(0, 2).Draw(rt, "bystander_material") {
			case 0:
				material = gast.Clone(src.When)
				labels = append(labels, "material:whole_condition")
			case 1:
				subs := boolSubExprs(src.When)
				if len(subs) > 0 {
					material = gast.Clone(subs[rapid.IntRange(0, len(subs)-1).Draw(rt, "bystander_sub")])
					labels = append(labels, "material:sub_expression")
				}
			}
			if material == nil {
				// a new comparison on a hot location
				var cands []gen.PathInfo
				for _, h := range rs.Hot {
					if (h.T == gast.TInt || h.T == gast.TFloat) && !h.ArithOnly {
						cands = append(cands, h)
					}
				}
				if len(cands) == 0 {
					material = gast.B(true)
				} else {
					h := cands[rapid.IntRange(0, len(cands)-1).Draw(rt, "bystander_hot")]
					op := []gast.Op{gast.OpGT, gast.OpLT, gast.OpGTE, gast.OpNEq}[rapid.IntRange(0, 3).Draw(rt, "bystander_cmp")]
					material = &gast.Bin{Op: op, L: h.Mk(), R: gast.I(int64(rapid.IntRange(-3, 1000).Draw(rt, "bystander_lit")))}
				}
				labels = append(labels, "material:new_comparison_on_hot_location")
			}
			var when gast.Expr
			if rapid.Bool().Draw(rt, "never_on_the_left") {
				when = &gast.Bin{Op: gast.OpAnd, L: never(), R: &gast.Paren{X: material}}
			} else {
				when = &gast.Bin{Op: gast.OpAnd, L: &gast.Paren{X: material}, R: never()}
			}
			by := &gast.Rule{Name: fmt.Sprintf("Bystander%d", i), When: when}
			sal := int64(rapid.IntRange(-5, 5).Draw(rt, "bystander_salience")) * 1000
			by.Salience = &sal
			by.Then = cloneStmts(src.Then)
			bys = append(bys, by)
		}
		alone := c.Texts
		if len(alone) == 0 {
			alone = []string{c.Text}
		}
		var btext string
		var bnames []string
		for _, b := range bys {
			btext += gast.RuleString(b) + "\n"
			bnames = append(bnames, b.Name)
		}
		all := strings.Join(alone, "")
		bc := &c07ByCase{Family: "bystander", Alone: alone, Init: c.Init, MaxCycle: c.MaxCycle, ByNames: bnames}
		// the same bystander inside a resource that is rejected as a whole (it ends in a syntax error)
		broken := btext + "rule ZBroken { when F.H > then }\n"
		bc.Layouts = []c07Layout{
			{Name: "first in the same resource", Texts: []string{btext + all}},
			{Name: "last in the same resource", Texts: []string{all + btext}},
			{Name: "in an earlier resource", Texts: append([]string{btext}, alone...)},
			{Name: "in a later resource", Texts: append(append([]string{}, alone...), btext)},
			{Name: "in a rejected resource offered afterwards", Texts: append(append([]string{}, alone...), broken), Rejected: []int{len(alone)}},
			{Name: "in a rejected resource offered after the first resource", Texts: append([]string{alone[0], broken}, alone[1:]...), Rejected: []int{1}},
		}
		msgs, out, err := c07Compare(bc, repsFor())
		if err != nil {
			if out != nil {
				col.Case(all+btext, false, "family:bystander", "not_reproducible_alone")
				return
			}
			rt.Fatalf("harness: %v\n%s\n%s", err, all, btext)
		}
		nt := len(out.Fired) >= 2
		labels = append(labels, "family:bystander", "ended:"+out.Class, "firings:"+bucket(len(out.Fired)), fmt.Sprintf("resources_alone:%d", len(alone)))
		col.Case(all+btext+fmt.Sprint(c.Init.Go["F"].I64, c.MaxCycle), nt, labels...)
		if col.WantSample(nt) {
			col.Sample(map[string]interface{}{"rules": all, "bystanders": btext, "max_cycle": c.MaxCycle, "fired_alone": out.Fired, "ended": out.Class}, nt)
		}
		if len(msgs) > 0 {
			sawFailure = true
			msg := strings.Join(msgs, "\n") + "\n--- rules ---\n" + all + "--- bystanders ---\n" + btext
			path := col.Violation("C07", "C07/bystander/"+firstWords(msgs[0]), msg, bc)
			rt.Fatalf("C07 violated: %s (replay %s)", msg, path)
		}
	})
}

func c07ReplayBystander(raw json.RawMessage) error {
	var bc c07ByCase
	if err := json.Unmarshal(raw, &bc); err != nil {
		return err
	}
	msgs, _, err := c07Compare(&bc, 24)
	if err != nil {
		return nil
	}
	if len(msgs) > 0 {
		return fmt.Errorf("%s", strings.Join(msgs, "; "))
	}
	return nil
}

func cloneStmts(ss []gast.Stmt) []gast.Stmt {
	r := &gast.Rule{Name: "x", When: gast.B(true), Then: ss}
	c, err := gast.DecodeRule(gast.EncodeRule(r))
	if err != nil {
		panic(err)
	}
	return c.Then
}
