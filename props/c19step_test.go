package props

import (
	"fmt"
	"reflect"
	"strings"

	"github.com/hyperjumptech/grule-rule-engine/engine"
	"pgregory.net/rapid"

	"verif/internal/facts"
	"verif/internal/obs"
)

// C19, stepping family: the outcome of a comparison depends on the operands' values only - also when one
// operand has just been given its value by an assignment of any form in the same call. One rule of high
// salience moves one operand in three steps through "below, equal, above" the other one; six observer rules
// of lower salience (and their operand-swapped mirrors) hold the six comparisons as their whole conditions, so
// the engine reports every comparison's outcome in every cycle, on the values of that moment.

type c19Step struct {
	Family string `json:"family"` // "step"
	LKind  string `json:"left_kind"`
	RKind  string `json:"right_kind"`
	// Op: the assignment form that moves the operand
	Op string `json:"assignment"`
	// MoveRight: the right operand (fact G) moves instead of the left one (fact F)
	MoveRight bool  `json:"right_operand_moves,omitempty"`
	Base      int64 `json:"fixed_operand"`
	// Mirrors: the knowledge base also holds the six comparisons with swapped operands
	Mirrors bool `json:"with_swapped_mirrors,omitempty"`
}

func c19Signed(kind string) bool { return !strings.HasPrefix(kind, "uint") }

func genC19Step(t *rapid.T) c19Step {
	kinds := append(append([]string{}, c19IntKinds...), c19FloatKinds...)
	s := c19Step{
		Family:    "step",
		LKind:     rapid.SampledFrom(kinds).Draw(t, "step_left_kind"),
		RKind:     rapid.SampledFrom(kinds).Draw(t, "step_right_kind"),
		Op:        rapid.SampledFrom([]string{"+=", "-=", "*=", "/=", "=", "+=", "-="}).Draw(t, "step_assignment"),
		MoveRight: rapid.Bool().Draw(t, "step_right_moves"),
		Mirrors:   rapid.Bool().Draw(t, "step_mirrors"),
	}
	switch s.Op {
	case "*=", "/=":
		s.Base = 2
	default:
		lo := int64(2)
		if c19Signed(s.LKind) && c19Signed(s.RKind) {
			lo = -100
		}
		s.Base = rapid.Int64Range(lo, 100).Draw(t, "step_fixed_operand")
	}
	return s
}

// values of the moving operand in cycles 1..4
func (s c19Step) moving() [4]int64 {
	switch s.Op {
	case "-=":
		return [4]int64{s.Base + 1, s.Base, s.Base - 1, s.Base - 2}
	case "*=":
		return [4]int64{1, 2, 4, 8}
	case "/=":
		return [4]int64{8, 4, 2, 1}
	}
	return [4]int64{s.Base - 1, s.Base, s.Base + 1, s.Base + 2}
}

var c19StepOps = [][2]string{{"EQ", "=="}, {"NEQ", "!="}, {"LT", "<"}, {"GT", ">"}, {"LTE", "<="}, {"GTE", ">="}}

func (s c19Step) text() string {
	l, r := "F."+c19FieldOf[s.LKind], "G."+c19FieldOf[s.RKind]
	mv := l
	if s.MoveRight {
		mv = r
	}
	var act string
	switch s.Op {
	case "=":
		act = mv + " = " + mv + " + 1;"
	case "*=", "/=":
		act = mv + " " + s.Op + " 2;"
	default:
		act = mv + " " + s.Op + " 1;"
	}
	var b strings.Builder
	fmt.Fprintf(&b, "rule Step salience 100 { when F.H < 3 then %s F.H = F.H + 1; }\n", act)
	for _, o := range c19StepOps {
		fmt.Fprintf(&b, "rule %s salience 1 { when %s %s %s then Retract(\"%s\"); }\n", o[0], l, o[1], r, o[0])
		if s.Mirrors {
			fmt.Fprintf(&b, "rule M%s salience 1 { when %s %s %s then Retract(\"M%s\"); }\n", o[0], r, o[1], l, o[0])
		}
	}
	return b.String()
}

func c19SetNum(f *facts.Fact, kind string, v int64) {
	fv := reflect.ValueOf(f).Elem().FieldByName(c19FieldOf[kind])
	switch fv.Kind() {
	case reflect.Float32, reflect.Float64:
		fv.SetFloat(float64(v))
	case reflect.Uint, reflect.Uint8, reflect.Uint16, reflect.Uint32, reflect.Uint64:
		fv.SetUint(uint64(v))
	default:
		fv.SetInt(v)
	}
}

func c19GetNum(f *facts.Fact, kind string) float64 {
	fv := reflect.ValueOf(f).Elem().FieldByName(c19FieldOf[kind])
	switch fv.Kind() {
	case reflect.Float32, reflect.Float64:
		return fv.Float()
	case reflect.Uint, reflect.Uint8, reflect.Uint16, reflect.Uint32, reflect.Uint64:
		return float64(fv.Uint())
	}
	return float64(fv.Int())
}

func c19Holds(op string, a, b float64) bool {
	switch op {
	case "EQ":
		return a == b
	case "NEQ":
		return a != b
	case "LT":
		return a < b
	case "GT":
		return a > b
	case "LTE":
		return a <= b
	}
	return a >= b
}

func c19StepRun(s c19Step) error {
	text := s.text()
	lib, err := obs.Build(text)
	if err != nil {
		return fmt.Errorf("harness: stepping rules do not build: %v\n%s", err, text)
	}
	kb, err := obs.Instance(lib)
	if err != nil {
		return fmt.Errorf("harness: instance: %v", err)
	}
	F, G := &facts.Fact{}, &facts.Fact{}
	mv := s.moving()
	if s.MoveRight {
		c19SetNum(F, s.LKind, s.Base)
		c19SetNum(G, s.RKind, mv[0])
	} else {
		c19SetNum(F, s.LKind, mv[0])
		c19SetNum(G, s.RKind, s.Base)
	}
	st := &facts.State{Go: map[string]*facts.Fact{"F": F, "G": G}}
	dc, err := obs.NewDataContext(st)
	if err != nil {
		return err
	}
	rec := &obs.Recorder{}
	var a, b float64
	var bad []string
	steps := 0
	rec.Hook = func(ev *obs.Event) {
		switch ev.Kind {
		case obs.EvBegin:
			a, b = c19GetNum(F, s.LKind), c19GetNum(G, s.RKind)
		case obs.EvExec:
			if ev.Rule == "Step" {
				steps++
			}
		case obs.EvEval:
			if ev.Rule == "Step" {
				return
			}
			op, x, y := ev.Rule, a, b
			if strings.HasPrefix(op, "M") {
				op, x, y = op[1:], b, a
			}
			if want := c19Holds(op, x, y); want != ev.Cand && len(bad) < 6 {
				bad = append(bad, fmt.Sprintf("cycle %d, after %d assignment(s) `%s`: rule %s reports %v for left=%v (%s) right=%v (%s), the values give %v", ev.Cycle, steps, s.Op, ev.Rule, ev.Cand, a, s.LKind, b, s.RKind, want))
			}
		}
	}
	res := obs.Execute(kb, dc, obs.RunOpts{MaxCycle: 40, ErrOnFail: true, Listeners: []engine.GruleEngineListener{rec}})
	if res.Panicked != nil {
		return fmt.Errorf("Execute panicked: %v\n%s", res.Panicked, text)
	}
	if len(bad) > 0 {
		return fmt.Errorf("a comparison's outcome does not follow its operands' values once one of them was assigned in the same call:\n%s\n--- rules ---\n%s", strings.Join(bad, "\n"), text)
	}
	if res.Err != nil {
		return fmt.Errorf("the stepping run ended with an error: %v\n%s", res.Err, text)
	}
	if steps != 3 {
		return fmt.Errorf("harness: the moving rule fired %d times, 3 expected\n%s", steps, text)
	}
	// the moved operand really went through the planned values
	got := c19GetNum(F, s.LKind)
	if s.MoveRight {
		got = c19GetNum(G, s.RKind)
	}
	if got != float64(mv[3]) {
		return fmt.Errorf("harness: the moved operand ended at %v, planned %v\n%s", got, mv[3], text)
	}
	return nil
}
