package props

import (
	"fmt"
	"testing"

	"pgregory.net/rapid"

	"verif/internal/stats"
)

// C02: execution ends only at quiescence; no satisfied rule is overlooked.

func TestC02(t *testing.T) {
	col := stats.New("C02", "rule sets as for C01 (1-6 rules over 2-5 hot locations of every addressing form, all assignment forms, Retract, Complete, Forget/Changed-announced mutators; instances directly from the library or through a binary store/load round trip); every evaluation event is compared with the rule's condition evaluated by a fresh single-rule engine on the real facts of that moment (a true rule must be reported as candidate), every active rule must be evaluated in every completed cycle, and a nil return without Complete requires that no active rule is true on the final facts. Non-trivial: a rule's fresh truth flipped false->true during the run, or quiescence was reached after at least 2 firings. Distinct by rule text + state.",
		"generated rule sets respect the documented memo contract (DESIGN 2.5 R1-R4)",
		"the engine's map iteration order cannot be seeded: every case is executed 2-3 times")
	defer col.Flush()
	cfg := rsGenCfg{Rules: fullRuleCfg(), GRB: true, Vary: true, JSONFront: true, Rejected: true, RemovedSibling: true}
	check(t, 0, budget(6000, 80000), func(rt *rapid.T) {
		c, rs := genRSCase(rt, cfg)
		maybeFailingConditions(rt, c, rs)
		maybeBareCondition(rt, c, rs)
		maybeUsedBefore(rt, c, rs, cfg.Rules.State)
		rep, v := runValidated(rt, c, "C02")
		nt := rep.FlipsFT > 0 || (rep.EndedBy == "quiescence" && rep.Firings >= 2)
		labels := append(featLabels(rs), "ended:"+rep.EndedBy, fmt.Sprintf("grb:%v", c.ViaGRB), "firings:"+bucket(rep.Firings))
		if rep.FlipsFT > 0 {
			labels = append(labels, "flip_false_true")
		}
		if rep.Excluded != "" {
			labels = append(labels, "excluded_out_of_quantifier")
		}
		col.Case(c.Text+fmt.Sprint(c.Init.Go["F"].I64, c.MaxCycle), nt, labels...)
		if col.WantSample(nt) {
			col.Sample(sampleOf(c, rep), nt)
		}
		if len(v) > 0 {
			reportViolation(rt, col, "C02", c, rep, v)
		}
	})
}

func init() { registerRSReplayer("C02") }
