package props

import (
	"bytes"
	"encoding/json"
	"fmt"
	"strings"
	"testing"

	"github.com/hyperjumptech/grule-rule-engine/ast"
	"github.com/hyperjumptech/grule-rule-engine/builder"
	"github.com/hyperjumptech/grule-rule-engine/pkg"
	"pgregory.net/rapid"

	"verif/internal/facts"
	"verif/internal/gast"
	"verif/internal/gen"
	"verif/internal/obs"
	"verif/internal/recog"
	"verif/internal/stats"
)

// C17: a GRL document is accepted exactly when it is grammatical.

type c17Case struct {
	OldRules []interface{} `json:"rules_loaded_before"`
	Text     string        `json:"text"`
	Parent   string        `json:"valid_parent,omitempty"`
	State    *facts.State  `json:"state"`
}

var c17Pool = []string{"rule", "when", "then", "salience", "true", "false", "nil", "RULE", "Then", "{", "}", "(", ")", "[", "]", ";", ",", ".", "+", "-", "*", "/", "%", "&", "|", "&&", "||", "!", "=", "==", "!=", "<", ">", "<=", ">=", "+=", "-=", "*=", "/=",
	"#", "`", "@", "$", "\\", "\"", "'", "/*", "*/", "//", "e+5", "1e+5", "p-1", "08", "0x", "0xg", "1.", "1.e5", ".5", "00.5", "0x1p-2", "0x15e-2",
	"99999999999999999999", "-9223372036854775809", "9223372036854775807", "-9223372036854775808", "1e999", "salience 2147483648", "salience -2147483649", "salience 2147483647", "salience -0x80000000",
	"\"\\q\"", "\"a\"\"b\"", "'it''s'", "\"unterminated", "\"ok\\n\"", "'\\''", "\"\\'\"", "X", "Y1", "Rule", "é", "日本", "\u00b7", "\x00", "\n", " ", "F", "F.X", "Retract(\"X\")", "true;", "rule Dup { when true then Retract(\"Dup\"); }"}

var c17Chars = []rune("{}()[];,.+-*/%&|!=<>\"'\\#`@ \n\te0x1_:?~^$9Zé")

// mutate applies one token- or character-level mutation.
func c17Mutate(rt *rapid.T, text string) (string, string) {
	toks, _ := recog.Lex(text, false)
	r := []rune(text)
	kind := rapid.SampledFrom([]string{"delete_token", "duplicate_token", "swap_tokens", "replace_token", "insert_token", "delete_char", "insert_char", "replace_char", "truncate",
		"literal_int", "literal_string", "literal_float", "duplicate_rule", "salience_value", "empty_part"}).Draw(rt, "mutation")
	pickKind := func(ks ...recog.Kind) (recog.Token, bool) {
		var cand []recog.Token
		for _, t := range toks {
			for _, k := range ks {
				if t.K == k {
					cand = append(cand, t)
				}
			}
		}
		if len(cand) == 0 {
			return recog.Token{}, false
		}
		return cand[rapid.IntRange(0, len(cand)-1).Draw(rt, "literal_tok")], true
	}
	switch kind {
	case "empty_part":
		// a whole part of a rule is left out: everything between `then` and the closing brace, between `when`
		// and `then`, or between the braces; what remains between the two tokens is drawn (nothing, a blank, a
		// line break, a comment, a lone semicolon)
		pairs := [][2]recog.Kind{{recog.THEN, recog.RBRACE}, {recog.WHEN, recog.THEN}, {recog.LBRACE, recog.RBRACE}, {recog.THEN, recog.SEMICOLON}}
		pr := pairs[rapid.IntRange(0, len(pairs)-1).Draw(rt, "part")]
		var starts []int
		for i, t := range toks {
			if t.K == pr[0] {
				starts = append(starts, i)
			}
		}
		if len(starts) > 0 {
			i := starts[rapid.IntRange(0, len(starts)-1).Draw(rt, "part_at")]
			for j := i + 1; j < len(toks); j++ {
				if toks[j].K == pr[1] {
					fill := rapid.SampledFrom([]string{" ", "", "\n", " // todo\n", " /* */ ", " ; ", "\t"}).Draw(rt, "part_fill")
					return string(r[:toks[i].End]) + fill + string(r[toks[j].Start:]), kind
				}
			}
		}
		if len(toks) == 0 {
			return text + " then }", "insert_token"
		}
		kind = "delete_token"
		t := toks[rapid.IntRange(0, len(toks)-1).Draw(rt, "tok")]
		return string(r[:t.Start]) + string(r[t.End:]), kind
	case "literal_int":
		if t, ok := pickKind(recog.DEC_LIT, recog.HEX_LIT, recog.OCT_LIT); ok {
			v := rapid.SampledFrom([]string{"9223372036854775807", "9223372036854775808", "99999999999999999999", "0x7fffffffffffffff", "0x8000000000000000", "0777777777777777777777", "01000000000000000000000", "2147483648", "0", "00", "0x0"}).Draw(rt, "int_text")
			return string(r[:t.Start]) + v + string(r[t.End:]), kind
		}
		kind = "insert_char"
	case "literal_string":
		if t, ok := pickKind(recog.DQ_STRING, recog.SQ_STRING); ok {
			v := rapid.SampledFrom([]string{`"\q"`, `"\x4"`, `"a""b"`, `'it''s'`, `"\'"`, `'\"'`, `"\u12"`, `"ok \t \u00e9 \x41 \\ \""`, `'ok \' \n'`, `"\400"`, `"\101"`, "\"new\nline\"", `""`, `''`}).Draw(rt, "str_text")
			return string(r[:t.Start]) + v + string(r[t.End:]), kind
		}
		kind = "insert_char"
	case "literal_float":
		if t, ok := pickKind(recog.DEC_FLOAT, recog.HEX_FLOAT, recog.DEC_LIT); ok {
			v := rapid.SampledFrom([]string{"1e999", "1e308", "1.7976931348623157e308", "1.8e308", "0x1p1024", "0x1p1023", "1e-999", ".0", "0.0e0", "1E+5", "0x.8p1"}).Draw(rt, "flt_text")
			return string(r[:t.Start]) + v + string(r[t.End:]), kind
		}
		kind = "insert_char"
	case "duplicate_rule":
		name := rapid.SampledFrom([]string{"", "Old0", "Old1"}).Draw(rt, "dup_name")
		if name == "" {
			if t, ok := pickKind(recog.SIMPLENAME); ok && len(toks) > 1 && toks[0].K == recog.RULE {
				_ = t
				name = toks[1].Text
			} else {
				name = "Old0"
			}
		}
		return text + "\nrule " + name + " { when true then Retract(\"" + name + "\"); }", kind
	case "salience_value":
		if t, ok := pickKind(recog.LBRACE); ok {
			v := rapid.SampledFrom([]string{"2147483647", "2147483648", "-2147483648", "-2147483649", "0x7fffffff", "0x80000000", "-0x80000001", "017777777777", "020000000000", "99999999999999999999", "1.5", "- 5", "-5"}).Draw(rt, "sal_text")
			return string(r[:t.Start]) + " salience " + v + " " + string(r[t.Start:]), kind
		}
		kind = "insert_char"
	}
	if len(toks) == 0 && strings.HasSuffix(kind, "_token") || len(toks) < 2 && kind == "swap_tokens" {
		kind = "insert_char"
	}
	switch kind {
	case "delete_token":
		t := toks[rapid.IntRange(0, len(toks)-1).Draw(rt, "tok")]
		return string(r[:t.Start]) + string(r[t.End:]), kind
	case "duplicate_token":
		t := toks[rapid.IntRange(0, len(toks)-1).Draw(rt, "tok")]
		return string(r[:t.End]) + " " + t.Text + string(r[t.End:]), kind
	case "swap_tokens":
		i := rapid.IntRange(0, len(toks)-2).Draw(rt, "tok")
		j := rapid.IntRange(i+1, len(toks)-1).Draw(rt, "tok2")
		a, b := toks[i], toks[j]
		return string(r[:a.Start]) + b.Text + string(r[a.End:b.Start]) + a.Text + string(r[b.End:]), kind
	case "replace_token":
		t := toks[rapid.IntRange(0, len(toks)-1).Draw(rt, "tok")]
		p := c17Pool[rapid.IntRange(0, len(c17Pool)-1).Draw(rt, "pool")]
		return string(r[:t.Start]) + p + string(r[t.End:]), kind
	case "insert_token":
		t := toks[rapid.IntRange(0, len(toks)-1).Draw(rt, "tok")]
		p := c17Pool[rapid.IntRange(0, len(c17Pool)-1).Draw(rt, "pool")]
		sep := []string{" ", ""}[rapid.IntRange(0, 1).Draw(rt, "sep")]
		return string(r[:t.Start]) + p + sep + string(r[t.Start:]), kind
	case "delete_char":
		if len(r) == 0 {
			return text, kind
		}
		i := rapid.IntRange(0, len(r)-1).Draw(rt, "pos")
		return string(r[:i]) + string(r[i+1:]), kind
	case "insert_char":
		i := rapid.IntRange(0, len(r)).Draw(rt, "pos")
		c := c17Chars[rapid.IntRange(0, len(c17Chars)-1).Draw(rt, "char")]
		return string(r[:i]) + string(c) + string(r[i:]), kind
	case "replace_char":
		if len(r) == 0 {
			return text, kind
		}
		i := rapid.IntRange(0, len(r)-1).Draw(rt, "pos")
		c := c17Chars[rapid.IntRange(0, len(c17Chars)-1).Draw(rt, "char")]
		return string(r[:i]) + string(c) + string(r[i+1:]), kind
	default:
		if len(r) == 0 {
			return text, kind
		}
		i := rapid.IntRange(0, len(r)-1).Draw(rt, "pos")
		return string(r[:i]), kind
	}
}

// c17Doc generates a valid, grammar-rich document.
func c17Doc(rt *rapid.T, paths []gen.PathInfo, prefix string) string {
	g := gen.NewXG(rt, gen.ExprCfg{Paths: paths, Recv: "F", Hostile: true, StrFuncs: true, Builtins: true, Chains: true, ComputedIndex: true, Probes: true})
	n := rapid.IntRange(1, 3).Draw(rt, "nrules")
	names := gen.RuleNames(rt, n, prefix)
	var b strings.Builder
	for i := 0; i < n; i++ {
		r := &gast.Rule{Name: names[i]}
		if rapid.Bool().Draw(rt, "has_desc") {
			d := rapid.SampledFrom([]string{"a rule", "", "x > 1 /* not a comment */", "it's", "say \\\"hi\\\"", "tab\\there", "é✓", "// no"}).Draw(rt, "desc")
			r.Desc = &d
			r.DescQ = '"'
			if !strings.Contains(d, "'") && rapid.Bool().Draw(rt, "desc_single") {
				r.DescQ = '\''
			}
		}
		if rapid.Bool().Draw(rt, "has_sal") {
			s := rapid.SampledFrom([]int64{0, 1, -1, 10, -10, 2147483647, -2147483648, 255, 8}).Draw(rt, "sal")
			r.Salience = &s
		}
		r.When = g.Bool(rapid.IntRange(1, 3).Draw(rt, "cond_depth"))
		na := rapid.IntRange(1, 3).Draw(rt, "nactions")
		for a := 0; a < na; a++ {
			switch rapid.IntRange(0, 5).Draw(rt, "action") {
			case 0:
				e, _ := g.Int(2)
				r.Then = append(r.Then, &gast.Assign{LHS: gast.P("F", "I64"), Op: rapid.SampledFrom([]string{"=", "+=", "-=", "*=", "/="}).Draw(rt, "aop"), RHS: e})
			case 1:
				r.Then = append(r.Then, &gast.Assign{LHS: gast.P("F", "S"), Op: "=", RHS: g.Str(2)})
			case 2:
				e, _ := g.Float(2)
				r.Then = append(r.Then, &gast.Assign{LHS: gast.P("F", "FArr").At(gast.I(1)), Op: "=", RHS: e})
			case 3:
				r.Then = append(r.Then, &gast.CallStmt{X: &gast.Call{Name: "Retract", Args: []gast.Expr{gast.S(r.Name)}}})
			case 4:
				r.Then = append(r.Then, &gast.CallStmt{X: &gast.Call{Recv: gast.P("F"), Name: "Mark", Args: []gast.Expr{gast.I(1)}}})
			default:
				r.Then = append(r.Then, &gast.Assign{LHS: gast.P("J", "m").At(gast.S("k2")), Op: "=", RHS: g.Str(1)})
			}
		}
		p := gast.NewPrinter()
		p.C = rchooser{rt}
		p.Vary, p.VaryLits = true, true
		p.Rule(r)
		b.WriteString(p.String())
		b.WriteString(rapid.SampledFrom([]string{"\n", " ", "", "\n// trailing\n", " /* c */ "}).Draw(rt, "between"))
	}
	return b.String()
}

func c17OldRules(rt *rapid.T, all []gen.PathInfo) []*gast.Rule {
	// the single-firing old rules must not read what the multi-cycle rule below writes (their results
	// would depend on the firing order)
	counterLocs := map[string]bool{"F.I64": true, "F.Sub.X": true, "F.Arr[1]": true, `F.M["a"]`: true}
	var paths []gen.PathInfo
	for _, p := range all {
		if !counterLocs[p.Text] {
			paths = append(paths, p)
		}
	}
	g := gen.NewXG(rt, gen.ExprCfg{Paths: paths, Recv: "F", StrFuncs: true, SmallLits: true, NoPtrNum: true})
	n := rapid.IntRange(1, 3).Draw(rt, "nold")
	var rs []*gast.Rule
	for i := 0; i < n; i++ {
		cond := g.Bool(rapid.IntRange(1, 2).Draw(rt, "old_cond_depth"))
		if rapid.Bool().Draw(rt, "old_true") {
			cond = gast.B(true)
		}
		rs = append(rs, c16MkRule(fmt.Sprintf("Old%d", i), cond, g.OfType(gast.TInt, 1)))
	}
	// a rule that needs several cycles and therefore the working memory's invalidation: it reads and
	// assigns a location the (possibly rejected) text is likely to mention as well
	lim := int64(rapid.IntRange(2, 5).Draw(rt, "old_count_limit"))
	loc := []*gast.Path{gast.P("F", "I64"), gast.P("F", "Sub", "X"), gast.P("F", "Arr").At(gast.I(1)), gast.P("F", "M").At(gast.S("a"))}[rapid.IntRange(0, 3).Draw(rt, "old_count_loc")]
	rs = append(rs, &gast.Rule{Name: "OldCount", When: &gast.Bin{Op: gast.OpLT, L: loc, R: gast.I(lim)},
		Then: []gast.Stmt{&gast.Assign{LHS: loc, Op: "+=", RHS: gast.I(1)}, &gast.Assign{LHS: gast.P("J", "out_OldCount"), Op: "=", RHS: loc}}})
	return rs
}

// c17Check runs the recogniser and the builder on text (into a knowledge base holding old) and
// compares.
func c17Check(old []*gast.Rule, text string, st *facts.State) (v []string, verdict recog.Result, err error) {
	lib := ast.NewKnowledgeLibrary()
	existing := map[string]bool{}
	oldText := gast.RulesString(old)
	var before map[string]c07Outcome
	var oldNames []string
	if len(old) > 0 {
		if berr, _ := obs.BuildInto(lib, obs.KBName, obs.KBVersion, oldText); berr != nil {
			return nil, verdict, fmt.Errorf("old rules do not build: %v", berr)
		}
		for _, r := range old {
			existing[r.Name] = true
			oldNames = append(oldNames, r.Name)
		}
		before, err = c17Observe(lib, oldNames, st)
		if err != nil {
			return nil, verdict, fmt.Errorf("old rules do not run: %v", err)
		}
	}
	verdict = recog.Recognise(text, existing)
	berr, pan := obs.BuildInto(lib, obs.KBName, obs.KBVersion, text)
	if pan != nil {
		v = append(v, fmt.Sprintf("BuildRuleFromResource panicked (%v); the text is %s (%s)", pan, verdict.V, verdict.Reason))
		return v, verdict, nil
	}
	kb := lib.GetKnowledgeBase(obs.KBName, obs.KBVersion)
	switch {
	case verdict.V == recog.Accept && berr != nil:
		v = append(v, fmt.Sprintf("a grammatical document with valid literals and distinct names was rejected: %v%s", berr, reporterDetails(berr)))
	case verdict.V != recog.Accept && berr == nil:
		v = append(v, fmt.Sprintf("silent acceptance: BuildRuleFromResource returned nil although the text is not acceptable (%s: %s)", verdict.V, verdict.Reason))
	}
	if verdict.V == recog.Accept && berr == nil {
		for _, ri := range verdict.Rules {
			e, ok := kb.RuleEntries[ri.Name]
			if !ok {
				v = append(v, fmt.Sprintf("accepted text: rule %s is not in the knowledge base", ri.Name))
				continue
			}
			wantDesc := "No Description"
			if ri.HasDesc {
				wantDesc = ri.Description
			}
			if e.RuleName != ri.Name || e.RuleDescription != wantDesc || int64(e.Salience) != ri.Salience {
				v = append(v, fmt.Sprintf("accepted text: rule %s stored with name %q description %q salience %d, declared %q / %d", ri.Name, e.RuleName, e.RuleDescription, e.Salience, wantDesc, ri.Salience))
			}
		}
		if len(kb.RuleEntries) != len(verdict.Rules)+len(old) {
			v = append(v, fmt.Sprintf("accepted text: knowledge base holds %d rules, expected %d", len(kb.RuleEntries), len(verdict.Rules)+len(old)))
		}
	}
	if berr != nil {
		rep, isRep := berr.(*pkg.GruleErrorReporter)
		if verdict.V == recog.Syntax {
			if !isRep || rep == nil || len(rep.Errors) == 0 {
				v = append(v, fmt.Sprintf("a syntax problem was reported as %T without a GruleErrorReporter entry: %v", berr, berr))
			}
		}
		// what was loaded before still works
		if len(old) > 0 {
			after, oerr := c17Observe(lib, oldNames, st)
			if oerr != nil {
				v = append(v, fmt.Sprintf("after the rejected text the rules loaded before can no longer be used: %v", oerr))
			} else {
				for _, n := range oldNames {
					if !sinkEqual(before[n], after[n]) {
						v = append(v, fmt.Sprintf("after the rejected text rule %s behaves differently: before match=%v sink=%v, after match=%v sink=%v", n, before[n].Match, before[n].Sink, after[n].Match, after[n].Sink))
					}
				}
			}
		}
	}
	// the same two resources handed to the batch entry point in one call: the outcome is the same - the first
	// resource's rules are in force and behave as before, whatever happens to the second resource
	if len(old) > 0 && len(text) < 4096 && len(v) == 0 {
		libB := ast.NewKnowledgeLibrary()
		berrB, panB := obs.BuildBatch(libB, obs.KBName, obs.KBVersion, []string{oldText, text})
		switch {
		case panB != nil:
			v = append(v, fmt.Sprintf("BuildRuleFromResources panicked (%v); the second resource is %s (%s)", panB, verdict.V, verdict.Reason))
		case (berrB == nil) != (berr == nil):
			v = append(v, fmt.Sprintf("BuildRuleFromResources on [rules loaded before, text] returned %v, the two single calls returned nil and %v", berrB, berr))
		case berrB != nil:
			after, oerr := c17Observe(libB, oldNames, st)
			if oerr != nil {
				v = append(v, fmt.Sprintf("batch entry point: after the rejected second resource the rules of the first one can no longer be used: %v", oerr))
			} else {
				for _, n := range oldNames {
					if !sinkEqual(before[n], after[n]) {
						v = append(v, fmt.Sprintf("batch entry point: after the rejected second resource rule %s of the first one behaves differently: alone match=%v sink=%v, now match=%v sink=%v", n, before[n].Match, before[n].Sink, after[n].Match, after[n].Sink))
					}
				}
			}
		}
	}
	// one builder value for both resources, with the library entry replaced by its own stored image in between
	// (a hot reload): the outcome for the text is the same, and the accepted rules are in the library's knowledge base
	if len(old) > 0 && len(text) < 4096 && len(v) == 0 {
		libL := ast.NewKnowledgeLibrary()
		rb := builder.NewRuleBuilder(libL)
		build := func(t string) (err error, pan interface{}) {
			defer func() {
				if r := recover(); r != nil {
					pan = r
				}
			}()
			return rb.BuildRuleFromResource(obs.KBName, obs.KBVersion, pkg.NewBytesResource([]byte(t))), nil
		}
		if e, p := build(oldText); e != nil || p != nil {
			return nil, verdict, fmt.Errorf("old rules do not build with a builder of their own: %v %v", e, p)
		}
		var img bytes.Buffer
		if err := storeKB(libL, &img); err != nil {
			return nil, verdict, fmt.Errorf("store of the old rules failed: %v", err)
		}
		if _, lerr, lpan := loadKB(img.Bytes(), libL, true); lerr != nil || lpan != nil {
			return nil, verdict, fmt.Errorf("reload of the old rules failed: %v %v", lerr, lpan)
		}
		berrL, panL := build(text)
		switch {
		case panL != nil:
			v = append(v, fmt.Sprintf("BuildRuleFromResource on a builder used before panicked (%v); the text is %s (%s)", panL, verdict.V, verdict.Reason))
		case (berrL == nil) != (berr == nil):
			v = append(v, fmt.Sprintf("a builder that built the earlier resource, with the library entry reloaded from its stored image in between, returned %v for the text; a new builder returned %v", berrL, berr))
		case berrL == nil && verdict.V == recog.Accept:
			kbL := libL.GetKnowledgeBase(obs.KBName, obs.KBVersion)
			for _, ri := range verdict.Rules {
				if e, ok := kbL.RuleEntries[ri.Name]; !ok || e.Deleted {
					v = append(v, fmt.Sprintf("accepted text (builder used before, library entry reloaded in between): rule %s is not in the library's knowledge base", ri.Name))
				}
			}
			for _, n := range oldNames {
				if e, ok := kbL.RuleEntries[n]; !ok || e.Deleted {
					v = append(v, fmt.Sprintf("accepted text (builder used before, library entry reloaded in between): rule %s loaded before is no longer in the library's knowledge base", n))
				}
			}
		}
	}
	return v, verdict, nil
}

// c17Observe instantiates, stores+loads and runs the knowledge base, looking only at the named
// (old) rules: everything else is removed from the instance first.
func c17Observe(lib *ast.KnowledgeLibrary, names []string, st *facts.State) (map[string]c07Outcome, error) {
	keep := map[string]bool{}
	for _, n := range names {
		keep[n] = true
	}
	var buf bytes.Buffer
	if err := storeKB(lib, &buf); err != nil {
		return nil, fmt.Errorf("store failed: %v", err)
	}
	l2 := ast.NewKnowledgeLibrary()
	if _, err, _ := loadKB(buf.Bytes(), l2, true); err != nil {
		return nil, fmt.Errorf("load of the stored knowledge base failed: %v", err)
	}
	if _, err := obs.Instance(l2); err != nil {
		return nil, fmt.Errorf("NewKnowledgeBaseInstance on the stored+loaded knowledge base failed: %v", err)
	}
	out := map[string]c07Outcome{}
	mk := func() (*ast.KnowledgeBase, error) {
		kb, err := obs.Instance(lib)
		if err != nil {
			return nil, fmt.Errorf("NewKnowledgeBaseInstance failed: %v", err)
		}
		var drop []string
		for key, e := range kb.RuleEntries {
			if !keep[e.RuleName] && !e.Deleted {
				drop = append(drop, key)
			}
		}
		for _, d := range drop {
			kb.RemoveRuleEntry(d)
		}
		return kb, nil
	}
	kb, err := mk()
	if err != nil {
		return nil, err
	}
	s1 := st.Copy()
	dc, _ := obs.NewDataContext(s1)
	matched, _, ferr, pan := obs.Fetch(kb, dc, false)
	if pan != nil || ferr != nil {
		return nil, fmt.Errorf("FetchMatchingRules failed: %v %v", ferr, pan)
	}
	mset := map[string]bool{}
	for _, m := range matched {
		mset[m] = true
	}
	kb2, err := mk()
	if err != nil {
		return nil, err
	}
	s2 := st.Copy()
	dc2, _ := obs.NewDataContext(s2)
	res := obs.Execute(kb2, dc2, obs.RunOpts{MaxCycle: uint64(len(names) + 12)})
	if res.Panicked != nil {
		return nil, fmt.Errorf("Execute panicked: %v", res.Panicked)
	}
	final := obs.Capture(s2, dc2)
	j, _ := final.JSON["J"].(map[string]interface{})
	for _, n := range names {
		o := c07Outcome{Match: mset[n]}
		if v, ok := j["out_"+n]; ok {
			o.Sink, o.Has = v, true
		}
		if n == "OldCount" {
			// the multi-cycle rule: its last written value and the way the run ended
			o.Sink = fmt.Sprintf("%v/%s", o.Sink, errClass(res.Err))
			o.Has = true
		}
		out[n] = o
	}
	return out, nil
}

func TestC17(t *testing.T) {
	col := stats.New("C17", "valid documents are produced by the grammar-rich printer (1-3 rules; optional single- or double-quoted descriptions with escapes and comment look-alikes; saliences incl. int32 limits in decimal/hex/octal; conditions of depth 1-3 with every operator, constants as receivers, chained selectors and calls; all assignment forms; call statements; spacing, comments, keyword case, literal notations, quoting varied) and then receive 0-3 mutations: delete / duplicate / swap / replace / insert a token (pool of keywords, brackets, operators, stray characters, `e+5`, `08`, `1.`, out-of-range integers and saliences, bad escapes, doubled quotes, unterminated strings and comments, duplicate rule) or delete / insert / replace a character or truncate. Oracle: an independent recogniser (own maximal-munch lexer written from the token rules, own backtracking parser for the parser rules, literal/escape/salience/name checks): BuildRuleFromResource returns nil exactly when the recogniser accepts; on acceptance every rule is present under its name with its raw description and salience; a syntax rejection is a GruleErrorReporter with at least one entry; no panic. The text is built into a knowledge base that already holds 0-3 good rules: after a rejection those rules must still instantiate, store+load and produce the same FetchMatchingRules membership and sinks as before (rules the builder added from the rejected text are removed from the instance before comparing). With earlier rules present, the two resources are also built by one long-lived builder with the library entry reloaded from its stored image in between. Non-trivial: a mutant whose verdict differs from its valid parent's, or an unmutated document with at least 2 rules. Distinct by text.",
		"float literals outside the float64 range are generated only through the pool entry 1e999 (rejected by both sides)")
	defer col.Flush()
	stCfg := gen.StateCfg{D: gen.Small, JSON: true, Top: true}
	paths := append(gen.AllPaths(stCfg), gen.ROPaths("F")...)
	check(t, 0, budget(16000, 240000), func(rt *rapid.T) {
		st := gen.SeededState(rapid.Uint64Range(0, 1<<12).Draw(rt, "state_seed"), stCfg)
		var old []*gast.Rule
		if rapid.Bool().Draw(rt, "has_old_rules") {
			old = c17OldRules(rt, paths)
		}
		parent := c17Doc(rt, paths, "")
		text := parent
		nm := rapid.IntRange(0, 3).Draw(rt, "nmutations")
		var kinds []string
		for i := 0; i < nm; i++ {
			var k string
			text, k = c17Mutate(rt, text)
			kinds = append(kinds, "mutation:"+k)
		}
		v, verdict, err := c17Check(old, text, st)
		if err != nil {
			rt.Fatalf("harness: %v", err)
		}
		nt := false
		if nm == 0 {
			nt = len(verdict.Rules) >= 2
			if verdict.V != recog.Accept {
				rt.Fatalf("harness: the recogniser rejects an unmutated generated document (%s)\n%s", verdict.Reason, text)
			}
		} else {
			nt = verdict.V != recog.Accept
		}
		labels := append(kinds, "verdict:"+verdict.V.String(), fmt.Sprintf("mutations:%d", nm), fmt.Sprintf("old_rules:%d", len(old)))
		if verdict.SalienceOutOfRange {
			labels = append(labels, "salience_out_of_int32")
		}
		col.Case(text, nt, labels...)
		if col.WantSample(nt) {
			col.Sample(map[string]interface{}{"text": text, "verdict": verdict.V.String(), "reason": verdict.Reason, "mutations": kinds}, nt)
		}
		if len(v) > 0 {
			msg := strings.Join(v, "\n") + "\n--- text ---\n" + text + "\n--- recogniser: " + verdict.V.String() + " " + verdict.Reason
			path := col.Violation("C17", "C17/"+firstWords(v[0]), msg, c17Case{OldRules: gast.EncodeRules(old), Text: text, Parent: parent, State: st})
			rt.Fatalf("C17 violated: %s (replay %s)", msg, path)
		}
	})
}

func init() {
	replayers["C17"] = func(raw json.RawMessage) error {
		var c c17Case
		if err := json.Unmarshal(raw, &c); err != nil {
			return err
		}
		old, err := gast.DecodeRules(c.OldRules)
		if err != nil {
			return err
		}
		v, _, err := c17Check(old, c.Text, c.State)
		if err != nil {
			return err
		}
		if len(v) > 0 {
			return fmt.Errorf("%s", strings.Join(v, "; "))
		}
		return nil
	}
}
