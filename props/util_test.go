package props

import (
	"sort"
	"strings"
	"time"

	"github.com/hyperjumptech/grule-rule-engine/engine"
	"github.com/hyperjumptech/grule-rule-engine/pkg"

	"verif/internal/obs"
	"verif/internal/ref"
)

func sortStrings(s []string) { sort.Strings(s) }

// reporterDetails lists the entries of a GruleErrorReporter.
func reporterDetails(err error) string {
	rep, ok := err.(*pkg.GruleErrorReporter)
	if !ok || rep == nil {
		return ""
	}
	var parts []string
	for i, e := range rep.Errors {
		if i >= 4 {
			parts = append(parts, "...")
			break
		}
		parts = append(parts, e.Error())
	}
	return " [" + strings.Join(parts, "; ") + "]"
}

func sinkTimeEqual(sink interface{}, want ref.Val) bool {
	t, ok := sink.(time.Time)
	return ok && t.Equal(want.T)
}

func listenersOf(r *obs.Recorder) []engine.GruleEngineListener {
	return []engine.GruleEngineListener{r}
}
